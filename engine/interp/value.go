// Copyright 2013 The Go Authors. All rights reserved.
// Use of this source code is governed by a BSD-style
// license that can be found in the LICENSE file.

package interp

// Values
//
// All interpreter values are "boxed" in the empty interface, value.
// The range of possible dynamic types within value are:
//
// - bool
// - numbers (all built-in int/float/complex types are distinguished)
// - string
// - map[value]value --- maps for which  usesBuiltinMap(keyType)
//   *hashmap        --- maps for which !usesBuiltinMap(keyType)
// - chan value
// - []value --- slices
// - iface --- interfaces.
// - structure --- structs.  Fields are ordered and accessed by numeric indices.
// - array --- arrays.
// - *value --- pointers.  Careful: *value is a distinct type from *array etc.
// - *ssa.Function \
//   *ssa.Builtin   } --- functions.  A nil 'func' is always of type *ssa.Function.
//   *closure      /
// - tuple --- as returned by Return, Next, "value,ok" modes, etc.
// - iter --- iterators from 'range' over map or string.
// - bad --- a poison pill for locals that have gone out of scope.
// - rtype -- the interpreter's concrete implementation of reflect.Type
// - **deferred -- the address of a frame's defer stack for a Defer._Stack.
//
// Note that nil is not on this list.
//
// Pay close attention to whether or not the dynamic type is a pointer.
// The compiler cannot help you since value is an empty interface.

import (
	"bytes"
	"fmt"
	"go/types"
	"unsafe"

	"golang.org/x/tools/go/ssa"
	"golang.org/x/tools/go/types/typeutil"
)

type value any

type tuple []value

type array []value

type iface struct {
	t types.Type // never an "untyped" type
	v value
}

type structure []value

// For map, array, *array, slice, string or channel.
type iter interface {
	// next returns a Tuple (key, value, ok).
	// key and value are unaliased, e.g. copies of the sequence element.
	next() tuple
}

type closure struct {
	Fn  *ssa.Function
	Env []value
}

type bad struct{}

// Hash functions and equivalence relation:

// hashString computes the FNV hash of s.
func hashString(s string) int {
	var h uint32
	for i := 0; i < len(s); i++ {
		h ^= uint32(s[i])
		h *= 16777619
	}
	return int(h)
}

var hasher = typeutil.MakeHasher()

// hashType returns a hash for t such that
// types.Identical(x, y) => hashType(x) == hashType(y).
func hashType(t types.Type) int {
	return int(hasher.Hash(t))
}

// nil-tolerant variant of types.Identical.
func sameType(x, y types.Type) bool {
	if x == nil {
		return y == nil
	}
	return y != nil && types.Identical(x, y)
}

// equals returns true iff x and y are equal according to Go's
// linguistic equivalence relation for type t. Symbolic parts are decided
// (forking) through the explorer.
func equals(t types.Type, x, y value) bool {
	return truth(eqv(t, x, y))
}

// Returns an integer hash of x such that equals(x, y) => hash(x) == hash(y).
// The outer type is used only for the "unhashable" panic message.
func hash(outer, t types.Type, x value) int {
	switch x := x.(type) {
	case bool, int, int8, int16, int32, int64, uint, uint8, uint16, uint32, uint64, uintptr:
		return int(scalarBits(x))
	case float32:
		return int(x)
	case float64:
		return int(x)
	case string:
		return hashString(x)
	case *value:
		return int(uintptr(unsafe.Pointer(x)))
	case structure:
		h := 0
		for _, e := range x {
			h = h*31 + hash(outer, nil, e)
		}
		return h
	case array:
		h := 0
		for _, e := range x {
			h = h*31 + hash(outer, nil, e)
		}
		return h
	case iface:
		if x.t == nil {
			return 0
		}
		return hashType(x.t)*8581 + hash(outer, x.t, x.v)
	case *ssa.Function, *closure, *omap, []value:
		panic(targetPanic{iface{types.Typ[types.String], fmt.Sprintf("runtime error: hash of unhashable type %v", outer)}})
	}
	panic(fmt.Sprintf("unhashable type %v (%T)", outer, x))
}

// reflect.Value struct values don't have a fixed shape, since the
// payload can be a scalar or an aggregate depending on the instance.
// So store (and load) can't simply use recursion over the shape of the
// rhs value, or the lhs, to copy the value; we need the static type
// information.  (We can't make reflect.Value a new basic data type
// because its "structness" is exposed to Go programs.)

// load returns the value of type T in *addr.
func load(T types.Type, addr *value) value {
	switch T := T.Underlying().(type) {
	case *types.Struct:
		v := (*addr).(structure)
		a := make(structure, len(v))
		for i := range a {
			a[i] = load(T.Field(i).Type(), &v[i])
		}
		return a
	case *types.Array:
		v := (*addr).(array)
		a := make(array, len(v))
		for i := range a {
			a[i] = load(T.Elem(), &v[i])
		}
		return a
	default:
		return *addr
	}
}

// store stores value v of type T into *addr.
func store(T types.Type, addr *value, v value) {
	switch T := T.Underlying().(type) {
	case *types.Struct:
		lhs := (*addr).(structure)
		rhs := v.(structure)
		for i := range lhs {
			store(T.Field(i).Type(), &lhs[i], rhs[i])
		}
	case *types.Array:
		lhs := (*addr).(array)
		rhs := v.(array)
		for i := range lhs {
			store(T.Elem(), &lhs[i], rhs[i])
		}
	default:
		*addr = v
	}
}

// Prints in the style of built-in println.
// (More or less; in gc println is actually a compiler intrinsic and
// can distinguish println(1) from println(interface{}(1)).)
func writeValue(buf *bytes.Buffer, v value) {
	switch v := v.(type) {
	case nil, bool, int, int8, int16, int32, int64, uint, uint8, uint16, uint32, uint64, uintptr, float32, float64, complex64, complex128, string:
		fmt.Fprintf(buf, "%v", v)

	case *omap:
		buf.WriteString("map[")
		sep := ""
		if v != nil {
			for _, e := range v.entries {
				if !e.alive {
					continue
				}
				buf.WriteString(sep)
				sep = " "
				writeValue(buf, e.key)
				buf.WriteString(":")
				writeValue(buf, e.val)
			}
		}
		buf.WriteString("]")

	case sym:
		fmt.Fprintf(buf, "<sym %s>", v.t.String())

	case symstr:
		buf.WriteString("<symstr")
		for _, b := range v {
			buf.WriteString(" ")
			writeValue(buf, b)
		}
		buf.WriteString(">")

	case *symptr:
		buf.WriteString("<symptr>")

	case chan value:
		fmt.Fprintf(buf, "%v", v) // (an address)

	case *value:
		if v == nil {
			buf.WriteString("<nil>")
		} else {
			fmt.Fprintf(buf, "%p", v)
		}

	case iface:
		fmt.Fprintf(buf, "(%s, ", v.t)
		writeValue(buf, v.v)
		buf.WriteString(")")

	case structure:
		buf.WriteString("{")
		for i, e := range v {
			if i > 0 {
				buf.WriteString(" ")
			}
			writeValue(buf, e)
		}
		buf.WriteString("}")

	case array:
		buf.WriteString("[")
		for i, e := range v {
			if i > 0 {
				buf.WriteString(" ")
			}
			writeValue(buf, e)
		}
		buf.WriteString("]")

	case []value:
		buf.WriteString("[")
		for i, e := range v {
			if i > 0 {
				buf.WriteString(" ")
			}
			writeValue(buf, e)
		}
		buf.WriteString("]")

	case *ssa.Function, *ssa.Builtin, *closure:
		fmt.Fprintf(buf, "%p", v) // (an address)

	case tuple:
		// Unreachable in well-formed Go programs
		buf.WriteString("(")
		for i, e := range v {
			if i > 0 {
				buf.WriteString(", ")
			}
			writeValue(buf, e)
		}
		buf.WriteString(")")

	default:
		fmt.Fprintf(buf, "<%T>", v)
	}
}

// Implements printing of Go values in the style of built-in println.
func toString(v value) string {
	var b bytes.Buffer
	writeValue(&b, v)
	return b.String()
}

// ------------------------------------------------------------------------
// Iterators

// Copyright 2013 The Go Authors. All rights reserved.
// Use of this source code is governed by a BSD-style
// license that can be found in the LICENSE file.

// Package ssa/interp defines an interpreter for the SSA
// representation of Go programs.
//
// This interpreter is provided as an adjunct for testing the SSA
// construction algorithm.  Its purpose is to provide a minimal
// metacircular implementation of the dynamic semantics of each SSA
// instruction.  It is not, and will never be, a production-quality Go
// interpreter.
//
// The following is a partial list of Go features that are currently
// unsupported or incomplete in the interpreter.
//
// * Unsafe operations, including all uses of unsafe.Pointer, are
// impossible to support given the "boxed" value representation we
// have chosen.
//
// * The reflect package is only partially implemented.
//
// * The "testing" package is no longer supported because it
// depends on low-level details that change too often.
//
// * "sync/atomic" operations are not atomic due to the "boxed" value
// representation: it is not possible to read, modify and write an
// interface value atomically. As a consequence, Mutexes are currently
// broken.
//
// * recover is only partially implemented.  Also, the interpreter
// makes no attempt to distinguish target panics from interpreter
// crashes.
//
// * the sizes of the int, uint and uintptr types in the target
// program are assumed to be the same as those of the interpreter
// itself.
//
// * all values occupy space, even those of types defined by the spec
// to have zero size, e.g. struct{}.  This can cause asymptotic
// performance degradation.
//
// * os.Exit is implemented using panic, causing deferred functions to
// run.
package interp // import "golang.org/x/tools/go/ssa/interp"

import (
	"fmt"
	"go/token"
	"go/types"
	"log"
	"os"
	"runtime"
	"slices"
	"strings"

	"golang.org/x/tools/go/ssa"
)

type continuation int

const (
	kNext continuation = iota
	kReturn
	kJump
)

// Mode is a bitmask of options affecting the interpreter.
type Mode uint

const (
	DisableRecover Mode = 1 << iota // Disable recover() in target programs; show interpreter crash instead.
	EnableTracing                   // Print a trace of all instructions as they are interpreted.
)

type methodSet map[string]*ssa.Function

var debugPanics = os.Getenv("GOSYM_DEBUG") != ""

// funcInfo caches per-function facts that are expensive to recompute on every call.
type funcInfo struct {
	name    string
	ext     externalFn
	harness harnessFn
	isInit  bool
	nvals   int
	index   map[ssa.Value]int
}

func (i *interpreter) fnInfo(fn *ssa.Function) *funcInfo {
	if fi, ok := i.finfo[fn]; ok {
		return fi
	}
	fi := &funcInfo{}
	if fn.Parent() == nil {
		fi.name = fn.String()
		fi.ext = externals[fi.name]
		fi.harness = harnessIntrinsic(fn)
		fi.isInit = fn.Name() == "init" && fn.Signature.Recv() == nil && fn.Pkg != nil && fn.Synthetic != ""
	}
	fi.index = make(map[ssa.Value]int)
	add := func(v ssa.Value) {
		if _, ok := fi.index[v]; !ok {
			fi.index[v] = len(fi.index)
		}
	}
	for _, v := range fn.Params {
		add(v)
	}
	for _, v := range fn.FreeVars {
		add(v)
	}
	for _, v := range fn.Locals {
		add(v)
	}
	for _, b := range fn.Blocks {
		for _, in := range b.Instrs {
			if v, ok := in.(ssa.Value); ok {
				add(v)
			}
		}
	}
	fi.nvals = len(fi.index)
	if i.finfo == nil {
		i.finfo = make(map[*ssa.Function]*funcInfo)
	}
	i.finfo[fn] = fi
	return fi
}

// State shared between all interpreted goroutines.
type interpreter struct {
	prog               *ssa.Program           // the SSA program
	globals            map[*ssa.Global]*value // addresses of global variables (immutable)
	mode               Mode                   // interpreter options
	runtimeErrorString types.Type             // the runtime.errorString type (iff "runtime" is present)
	sizes              types.Sizes            // the effective type-sizing function

	ex              *Explorer
	steps           int64
	maxSteps        int64
	depth           int
	maxDepth        int
	initAllow       func(pkgPath string) bool // which package initialisers are executed
	pools           map[*value][]value        // sync.Pool model: LIFO per pool object
	syncMaps        map[*value]*omap          // sync.Map model: one insertion-ordered map per sync.Map object
	fresh           func()                    // symFreshProcess: globals under test back to their initial values
	stdin           []value                   // virtual standard input (symSetStdin)
	stdinOff        int
	ownShare        func(v value)    // ownership monitor: mark everything reachable from v as shared (symShare)
	osOut           string           // text written to *os.File through fmt.Fprint* on this path
	panicOrigin     *ssa.Function    // innermost function in which the pending run-time error arose
	stubs           map[string]value // function redirections installed by a harness
	monitor         *monitor
	unsupportedSeen map[string]int
	finfo           map[*ssa.Function]*funcInfo
	underTest       func(string) bool
}

type deferred struct {
	fn    value
	args  []value
	instr *ssa.Defer
	tail  *deferred
}

type frame struct {
	i                *interpreter
	caller           *frame
	fn               *ssa.Function
	block, prevBlock *ssa.BasicBlock
	env              []value // dynamic values of SSA variables, indexed by info.index
	info             *funcInfo
	locals           []value
	defers           *deferred
	result           value
	panicking        bool
	panic            any
	phitemps         []value // temporaries for parallel phi assignment
}

func (fr *frame) get(key ssa.Value) value {
	switch key := key.(type) {
	case nil:
		// Hack; simplifies handling of optional attributes
		// such as ssa.Slice.{Low,High}.
		return nil
	case *ssa.Function, *ssa.Builtin:
		return key
	case *ssa.Const:
		return constValue(key)
	case *ssa.Global:
		if r, ok := fr.i.globals[key]; ok {
			return r
		}
	}
	if ix, ok := fr.info.index[key]; ok {
		if r := fr.env[ix]; r != nil {
			return r
		}
	}
	panic(fmt.Sprintf("get: no value for %T: %v", key, key.Name()))
}

// runDefer runs a deferred call d.
// It always returns normally, but may set or clear fr.panic.
func (fr *frame) runDefer(d *deferred) {
	if fr.i.mode&EnableTracing != 0 {
		fmt.Fprintf(os.Stderr, "%s: invoking deferred function call\n",
			fr.i.prog.Fset.Position(d.instr.Pos()))
	}
	var ok bool
	defer func() {
		if !ok {
			// Deferred call created a new state of panic.
			p := recover()
			if isAbort(p) {
				panic(asAbort(p))
			}
			fr.panicking = true
			fr.panic = p
		}
	}()
	call(fr.i, fr, d.instr.Pos(), d.fn, d.args)
	ok = true
}

// runDefers executes fr's deferred function calls in LIFO order.
//
// On entry, fr.panicking indicates a state of panic; if
// true, fr.panic contains the panic value.
//
// On completion, if a deferred call started a panic, or if no
// deferred call recovered from a previous state of panic, then
// runDefers itself panics after the last deferred call has run.
//
// If there was no initial state of panic, or it was recovered from,
// runDefers returns normally.
func (fr *frame) runDefers() {
	for d := fr.defers; d != nil; d = d.tail {
		fr.runDefer(d)
	}
	fr.defers = nil
	if fr.panicking {
		panic(fr.panic) // new panic, or still panicking
	}
}

// lookupMethod returns the method set for type typ, which may be one
// of the interpreter's fake types.
func lookupMethod(i *interpreter, typ types.Type, meth *types.Func) *ssa.Function {
	return i.prog.LookupMethod(typ, meth.Pkg(), meth.Name())
}

// visitInstr interprets a single ssa.Instruction within the activation
// record frame.  It returns a continuation value indicating where to
// read the next instruction from.
func visitInstr(fr *frame, instr ssa.Instruction) continuation {
	switch instr := instr.(type) {
	case *ssa.DebugRef:
		// no-op

	case *ssa.UnOp:
		fr.env[fr.info.index[instr]] = unop(instr, fr.get(instr.X))

	case *ssa.BinOp:
		fr.env[fr.info.index[instr]] = binop(instr.Op, instr.X.Type(), fr.get(instr.X), fr.get(instr.Y))

	case *ssa.Call:
		fn, args := prepareCall(fr, &instr.Call)
		fr.env[fr.info.index[instr]] = call(fr.i, fr, instr.Pos(), fn, args)

	case *ssa.ChangeInterface:
		fr.env[fr.info.index[instr]] = fr.get(instr.X)

	case *ssa.ChangeType:
		fr.env[fr.info.index[instr]] = fr.get(instr.X) // (can't fail)

	case *ssa.Convert:
		fr.env[fr.info.index[instr]] = conv(instr.Type(), instr.X.Type(), fr.get(instr.X))

	case *ssa.SliceToArrayPointer:
		fr.env[fr.info.index[instr]] = sliceToArrayPointer(instr.Type(), instr.X.Type(), fr.get(instr.X))

	case *ssa.MakeInterface:
		fr.env[fr.info.index[instr]] = iface{t: instr.X.Type(), v: fr.get(instr.X)}

	case *ssa.Extract:
		fr.env[fr.info.index[instr]] = fr.get(instr.Tuple).(tuple)[instr.Index]

	case *ssa.Slice:
		fr.env[fr.info.index[instr]] = slice(fr.get(instr.X), fr.get(instr.Low), fr.get(instr.High), fr.get(instr.Max))

	case *ssa.Return:
		switch len(instr.Results) {
		case 0:
		case 1:
			fr.result = fr.get(instr.Results[0])
		default:
			var res []value
			for _, r := range instr.Results {
				res = append(res, fr.get(r))
			}
			fr.result = tuple(res)
		}
		fr.block = nil
		return kReturn

	case *ssa.RunDefers:
		fr.runDefers()

	case *ssa.Panic:
		panic(targetPanic{fr.get(instr.X)})

	case *ssa.Send:
		unsupported("channel send")

	case *ssa.Store:
		storeAt(fr, mustDeref(instr.Addr.Type()), fr.get(instr.Addr), fr.get(instr.Val))

	case *ssa.If:
		succ := 1
		if truth(fr.get(instr.Cond)) {
			succ = 0
		}
		fr.prevBlock, fr.block = fr.block, fr.block.Succs[succ]
		return kJump

	case *ssa.Jump:
		fr.prevBlock, fr.block = fr.block, fr.block.Succs[0]
		return kJump

	case *ssa.Defer:
		fn, args := prepareCall(fr, &instr.Call)
		defers := &fr.defers
		if into := fr.get(instr.DeferStack); into != nil {
			defers = into.(**deferred)
		}
		*defers = &deferred{
			fn:    fn,
			args:  args,
			instr: instr,
			tail:  *defers,
		}

	case *ssa.Go:
		unsupported("go statement")

	case *ssa.MakeChan:
		unsupported("make(chan)")

	case *ssa.Alloc:
		var addr *value
		if instr.Heap {
			// new
			addr = new(value)
			fr.env[fr.info.index[instr]] = addr
		} else {
			// local
			addr = fr.env[fr.info.index[instr]].(*value)
		}
		*addr = zero(mustDeref(instr.Type()))

	case *ssa.MakeSlice:
		n := asInt64(fr.get(instr.Cap))
		if n < 0 || n > 1<<24 {
			panic("runtime error: makeslice: cap out of range")
		}
		slice := make([]value, n)
		tElt := instr.Type().Underlying().(*types.Slice).Elem()
		for i := range slice {
			slice[i] = zero(tElt)
		}
		fr.env[fr.info.index[instr]] = slice[:asInt64(fr.get(instr.Len))]

	case *ssa.MakeMap:
		var reserve int64
		if instr.Reserve != nil {
			reserve = asInt64(fr.get(instr.Reserve))
		}
		if !fitsInt(reserve, fr.i.sizes) {
			panic(fmt.Sprintf("ssa.MakeMap.Reserve value %d does not fit in int", reserve))
		}
		fr.env[fr.info.index[instr]] = newOmap(instr.Type().Underlying().(*types.Map).Key())

	case *ssa.Range:
		if fr.i.monitor != nil {
			if m, ok := fr.get(instr.X).(*omap); ok && m != nil {
				fr.i.monitor.onMapRead(fr, m)
			}
		}
		fr.env[fr.info.index[instr]] = rangeIter(fr, fr.get(instr.X))

	case *ssa.Next:
		fr.env[fr.info.index[instr]] = fr.get(instr.Iter).(iter).next()

	case *ssa.FieldAddr:
		xp := fr.get(instr.X)
		if sp, ok := xp.(*symptr); ok {
			xp = sp.concretePtr()
		}
		if xp.(*value) == nil {
			panic("runtime error: invalid memory address or nil pointer dereference")
		}
		fr.env[fr.info.index[instr]] = &(*xp.(*value)).(structure)[instr.Field]

	case *ssa.Field:
		fr.env[fr.info.index[instr]] = fr.get(instr.X).(structure)[instr.Field]

	case *ssa.IndexAddr:
		x := fr.get(instr.X)
		idx := fr.get(instr.Index)
		var cells []value
		switch x := x.(type) {
		case []value:
			cells = x
		case *value: // *array
			if x == nil {
				panic("runtime error: invalid memory address or nil pointer dereference")
			}
			cells = (*x).(array)
		default:
			panic(fmt.Sprintf("unexpected x type in IndexAddr: %T", x))
		}
		if s, ok := idx.(sym); ok {
			fr.env[fr.info.index[instr]] = symIndexAddr(cells, s)
		} else {
			k := asInt64(idx)
			if k < 0 || k >= int64(len(cells)) {
				panic(fmt.Sprintf("runtime error: index out of range [%d] with length %d", k, len(cells)))
			}
			fr.env[fr.info.index[instr]] = &cells[k]
		}

	case *ssa.Index:
		x := fr.get(instr.X)
		idx := fr.get(instr.Index)

		var cells []value
		switch x := x.(type) {
		case array:
			cells = x
		case string, symstr:
			cells = strBytes(x)
		default:
			panic(fmt.Sprintf("unexpected x type in Index: %T", x))
		}
		if s, ok := idx.(sym); ok {
			sp := symIndexAddr(cells, s)
			if p, ok := sp.(*symptr); ok {
				fr.env[fr.info.index[instr]] = p.load(instr.Type())
			} else {
				fr.env[fr.info.index[instr]] = *sp.(*value)
			}
		} else {
			k := asInt64(idx)
			if k < 0 || k >= int64(len(cells)) {
				panic(fmt.Sprintf("runtime error: index out of range [%d] with length %d", k, len(cells)))
			}
			fr.env[fr.info.index[instr]] = cells[k]
		}

	case *ssa.Lookup:
		if fr.i.monitor != nil {
			if m, ok := fr.get(instr.X).(*omap); ok && m != nil {
				fr.i.monitor.onMapRead(fr, m)
			}
		}
		fr.env[fr.info.index[instr]] = lookup(instr, fr.get(instr.X), fr.get(instr.Index))

	case *ssa.MapUpdate:
		m := fr.get(instr.Map)
		key := fr.get(instr.Key)
		v := fr.get(instr.Value)
		switch m := m.(type) {
		case *omap:
			if m == nil {
				panic("assignment to entry in nil map")
			}
			if fr.i.monitor != nil {
				fr.i.monitor.onMapWrite(fr, m)
			}
			m.insert(key, v)
		default:
			panic(fmt.Sprintf("illegal map type: %T", m))
		}

	case *ssa.TypeAssert:
		fr.env[fr.info.index[instr]] = typeAssert(instr, fr.get(instr.X).(iface))

	case *ssa.MakeClosure:
		var bindings []value
		for _, binding := range instr.Bindings {
			bindings = append(bindings, fr.get(binding))
		}
		fr.env[fr.info.index[instr]] = &closure{instr.Fn.(*ssa.Function), bindings}

	case *ssa.Phi:
		log.Fatal("unreachable") // phis are processed at block entry

	case *ssa.Select:
		unsupported("select")

	default:
		panic(fmt.Sprintf("unexpected instruction: %T", instr))
	}

	// if val, ok := instr.(ssa.Value); ok {
	// 	fmt.Println(toString(fr.env[val])) // debugging
	// }

	return kNext
}

// prepareCall determines the function value and argument values for a
// function call in a Call, Go or Defer instruction, performing
// interface method lookup if needed.
func prepareCall(fr *frame, call *ssa.CallCommon) (fn value, args []value) {
	v := fr.get(call.Value)
	if call.Method == nil {
		// Function call.
		fn = v
	} else {
		// Interface method invocation.
		recv := v.(iface)
		if recv.t == nil {
			panic("method invoked on nil interface")
		}
		if f := lookupMethod(fr.i, recv.t, call.Method); f == nil {
			// Unreachable in well-typed programs.
			panic(fmt.Sprintf("method set for dynamic type %v does not contain %s", recv.t, call.Method))
		} else {
			fn = f
		}
		args = append(args, recv.v)
	}
	for _, arg := range call.Args {
		args = append(args, fr.get(arg))
	}
	return
}

// call interprets a call to a function (function, builtin or closure)
// fn with arguments args, returning its result.
// callpos is the position of the callsite.
func call(i *interpreter, caller *frame, callpos token.Pos, fn value, args []value) value {
	switch fn := fn.(type) {
	case *ssa.Function:
		if fn == nil {
			panic("call of nil function") // nil of func type
		}
		return callSSA(i, caller, callpos, fn, args, nil)
	case *closure:
		return callSSA(i, caller, callpos, fn.Fn, args, fn.Env)
	case *ssa.Builtin:
		return callBuiltin(caller, fn, args)
	}
	panic(fmt.Sprintf("cannot call %T", fn))
}

func loc(fset *token.FileSet, pos token.Pos) string {
	if pos == token.NoPos {
		return ""
	}
	return " at " + fset.Position(pos).String()
}

// isAbort reports whether a Go panic value is an engine-level abort that must
// never be visible to the target program's recover().
func isAbort(p any) bool {
	switch p.(type) {
	case engineError, pathEnd:
		return true
	case *runtime.TypeAssertionError:
		return true
	}
	return false
}

func asAbort(p any) any {
	if e, ok := p.(*runtime.TypeAssertionError); ok {
		buf := make([]byte, 4096)
		buf = buf[:runtime.Stack(buf, false)]
		return engineError{"engine bug: " + e.Error() + "\n" + string(buf)}
	}
	return p
}

// callSSA interprets a call to function fn with arguments args,
// and lexical environment env, returning its result.
// callpos is the position of the callsite.
func callSSA(i *interpreter, caller *frame, callpos token.Pos, fn *ssa.Function, args []value, env []value) value {
	if i.mode&EnableTracing != 0 {
		fset := fn.Prog.Fset
		fmt.Fprintf(os.Stderr, "Entering %s%s.\n", fn, loc(fset, fn.Pos()))
		suffix := ""
		if caller != nil {
			suffix = ", resuming " + caller.fn.String() + loc(fset, callpos)
		}
		defer fmt.Fprintf(os.Stderr, "Leaving %s%s.\n", fn, suffix)
	}
	fr := &frame{
		i:      i,
		caller: caller, // for panic/recover
		fn:     fn,
	}
	info := i.fnInfo(fn)
	if fn.Parent() == nil {
		if len(i.stubs) > 0 {
			if st, ok := i.stubs[info.name]; ok {
				if _, skip := st.(skipStub); skip {
					if fn.Signature.Results().Len() == 0 {
						return nil
					}
					return zero(fn.Signature.Results())
				}
				return call(i, caller, callpos, st, args)
			}
		}
		if info.isInit {
			if !i.initAllow(fn.Pkg.Pkg.Path()) {
				return nil
			}
		}
		if info.ext != nil {
			if i.mode&EnableTracing != 0 {
				fmt.Fprintln(os.Stderr, "\t(external)")
			}
			if r, handled := info.ext(fr, args); handled {
				return r
			}
		}
		if info.harness != nil {
			return info.harness(fr, args)
		}
		if fn.Blocks == nil {
			unsupported("no code for function %s", info.name)
		}
	}

	// generic function body?
	if fn.TypeParams().Len() > 0 && len(fn.TypeArgs()) == 0 {
		panic("interp requires ssa.BuilderMode to include InstantiateGenerics to execute generics")
	}

	i.depth++
	if i.depth > i.maxDepth {
		panic(engineError{fmt.Sprintf("call depth limit %d exceeded in %s", i.maxDepth, fn)})
	}
	defer func() { i.depth-- }()
	if i.monitor != nil {
		i.monitor.onEnter(fr, fn, args)
		defer i.monitor.onExit(fr, fn)
	}

	fr.info = info
	fr.env = make([]value, info.nvals)
	fr.block = fn.Blocks[0]
	fr.locals = make([]value, len(fn.Locals))
	for i, l := range fn.Locals {
		// (the Alloc instruction stores the zero value each time it executes)
		fr.env[fr.info.index[l]] = &fr.locals[i]
	}
	for i, p := range fn.Params {
		fr.env[fr.info.index[p]] = args[i]
	}
	for i, fv := range fn.FreeVars {
		fr.env[fr.info.index[fv]] = env[i]
	}
	for fr.block != nil {
		runFrame(fr)
	}
	return fr.result
}

// runFrame executes SSA instructions starting at fr.block and
// continuing until a return, a panic, or a recovered panic.
func runFrame(fr *frame) {
	defer func() {
		if fr.block == nil {
			return // normal return
		}
		p := recover()
		if isAbort(p) {
			panic(asAbort(p))
		}
		if debugPanics {
			if _, ok := p.(targetPanic); !ok {
				buf := make([]byte, 16384)
				buf = buf[:runtime.Stack(buf, false)]
				fmt.Fprintf(os.Stderr, "PANIC in %s: %v\n%s\n", fr.fn, p, buf)
			}
		}
		if fr.i.panicOrigin == nil {
			_, isRT := p.(runtime.Error)
			_, isStr := p.(string)
			if isRT || isStr {
				fr.i.panicOrigin = fr.fn
			}
		}
		fr.panicking = true
		fr.panic = p
		if fr.i.mode&EnableTracing != 0 {
			fmt.Fprintf(os.Stderr, "Panicking: %T %v.\n", fr.panic, fr.panic)
		}
		fr.runDefers()
		fr.block = fr.fn.Recover
	}()

	for {
		if fr.i.mode&EnableTracing != 0 {
			fmt.Fprintf(os.Stderr, ".%s:\n", fr.block)
		}

		nonPhis := executePhis(fr)
		fr.i.steps += int64(len(nonPhis))
		if fr.i.steps > fr.i.maxSteps {
			panic(engineError{fmt.Sprintf("step limit %d exceeded", fr.i.maxSteps)})
		}
		for _, instr := range nonPhis {
			if fr.i.mode&EnableTracing != 0 {
				if v, ok := instr.(ssa.Value); ok {
					fmt.Fprintln(os.Stderr, "\t", v.Name(), "=", instr)
				} else {
					fmt.Fprintln(os.Stderr, "\t", instr)
				}
			}
			if visitInstr(fr, instr) == kReturn {
				return
			}
			// Inv: kNext (continue) or kJump (last instr)
		}
	}
}

// executePhis executes the phi-nodes at the start of the current
// block and returns the non-phi instructions.
func executePhis(fr *frame) []ssa.Instruction {
	firstNonPhi := -1
	for i, instr := range fr.block.Instrs {
		if _, ok := instr.(*ssa.Phi); !ok {
			firstNonPhi = i
			break
		}
	}
	// Inv: 0 <= firstNonPhi; every block contains a non-phi.

	nonPhis := fr.block.Instrs[firstNonPhi:]
	if firstNonPhi > 0 {
		phis := fr.block.Instrs[:firstNonPhi]
		// Execute parallel assignment of phis.
		//
		// See "the swap problem" in Briggs et al's "Practical Improvements
		// to the Construction and Destruction of SSA Form" for discussion.
		predIndex := slices.Index(fr.block.Preds, fr.prevBlock)
		fr.phitemps = fr.phitemps[:0]
		for _, phi := range phis {
			phi := phi.(*ssa.Phi)
			if fr.i.mode&EnableTracing != 0 {
				fmt.Fprintln(os.Stderr, "\t", phi.Name(), "=", phi)
			}
			fr.phitemps = append(fr.phitemps, fr.get(phi.Edges[predIndex]))
		}
		for i, phi := range phis {
			fr.env[fr.info.index[phi.(*ssa.Phi)]] = fr.phitemps[i]
		}
	}
	return nonPhis
}

// doRecover implements the recover() built-in.
func doRecover(caller *frame) value {
	// recover() must be exactly one level beneath the deferred
	// function (two levels beneath the panicking function) to
	// have any effect.  Thus we ignore both "defer recover()" and
	// "defer f() -> g() -> recover()".
	if caller != nil && !caller.panicking &&
		caller.caller != nil && caller.caller.panicking {
		caller.caller.panicking = false
		p := caller.caller.panic
		caller.caller.panic = nil

		switch p := p.(type) {
		case targetPanic:
			// The target program explicitly called panic().
			return p.v
		case runtime.Error:
			// The interpreter encountered a runtime error. It may be a run-time panic of the
			// target or a limitation of the interpreter (library code it cannot execute): the two
			// are indistinguishable here, and a recover() in the code under test or in a harness
			// would hide the second kind. The path is marked inconclusive; a genuine panic of the
			// target is still reported through the harness's own assertion and its native replay.
			origin := caller.i.panicOrigin
			caller.i.panicOrigin = nil
			if caller.i.ex != nil && origin != nil && origin.Pkg != nil && caller.i.underTest != nil && !caller.i.underTest(origin.Pkg.Pkg.Path()) {
				caller.i.ex.inconclusive("a Go run-time error that arose inside " + origin.String() + " (library code, possibly beyond the interpreter) was recovered by the executed code: " + p.Error())
			}
			return caller.i.runtimeError(p.Error())
		case string:
			// The interpreter explicitly called panic().
			return caller.i.runtimeError(p)
		default:
			panic(engineError{fmt.Sprintf("unexpected panic type %T in target call to recover(): %v", p, p)})
		}
	}
	return iface{}
}

// runtimeError builds the value recover() returns for a run-time panic: an
// error whose Error() is msg.
func (i *interpreter) runtimeError(msg string) value {
	// runtime.errorString.Error() prepends "runtime error: " itself
	msg = strings.TrimPrefix(msg, "runtime error: ")
	if i.runtimeErrorString != nil {
		return iface{i.runtimeErrorString, msg}
	}
	return iface{types.Typ[types.String], "runtime error: " + msg}
}

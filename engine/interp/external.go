package interp

// Library boundary: intrinsics and native calls. Every entry here is part of
// the trusted base of a verdict and is listed in the evidence.

import (
	"errors"
	"fmt"
	"go/token"
	"go/types"
	"math"
	"reflect"
	"sort"
	"strconv"
	"strings"
	"unicode"

	"golang.org/x/tools/go/ssa"
)

// An externalFn returns (result, true) when it handled the call; (nil,false)
// lets the interpreter fall back to the function's SSA body.
type externalFn func(fr *frame, args []value) (value, bool)

var externals = make(map[string]externalFn)

// ExternalNames lists the intercepted functions (for evidence).
func ExternalNames() []string {
	var out []string
	for k := range externals {
		out = append(out, k)
	}
	sort.Strings(out)
	return out
}

type nativeErr struct{ s string }

func (e nativeErr) Error() string { return e.s }

type nativeStr struct{ s string }

func (e nativeStr) String() string { return e.s }

// syncMapOf returns the model map of a sync.Map object; write=true reports the mutation to the monitor.
func syncMapOf(fr *frame, recv value, write bool) *omap {
	p := recv.(*value)
	m := fr.i.syncMaps[p]
	if m == nil {
		m = newOmap(types.NewInterfaceType(nil, nil).Complete())
		fr.i.syncMaps[p] = m
	}
	if write && fr.i.monitor != nil {
		fr.i.monitor.onStore(fr, p)
	}
	return m
}

func sortSliceIntrinsic(fr *frame, args []value) (value, bool) {
	it, ok := args[0].(iface)
	if !ok {
		return nil, false
	}
	xs, ok := it.v.([]value)
	if !ok {
		return nil, false
	}
	less := func(i, j int) bool {
		return truth(call(fr.i, fr, token.NoPos, args[1], []value{i, j}))
	}
	for i := 1; i < len(xs); i++ {
		for j := i; j > 0 && less(j, j-1); j-- {
			xs[j], xs[j-1] = xs[j-1], xs[j]
		}
	}
	return nil, true
}

func allConcrete(args []value) bool {
	for _, a := range args {
		if hasSymbolicDeep(a, 0) {
			return false
		}
	}
	return true
}

func hasSymbolicDeep(v value, d int) bool {
	if d > 6 {
		return false
	}
	switch x := v.(type) {
	case sym, symstr:
		return true
	case iface:
		return x.t != nil && hasSymbolicDeep(x.v, d+1)
	case []value:
		for _, e := range x {
			if hasSymbolicDeep(e, d+1) {
				return true
			}
		}
	case structure:
		for _, e := range x {
			if hasSymbolicDeep(e, d+1) {
				return true
			}
		}
	case array:
		for _, e := range x {
			if hasSymbolicDeep(e, d+1) {
				return true
			}
		}
	}
	return false
}

func methodOf(i *interpreter, t types.Type, name string) *types.Func {
	ms := i.prog.MethodSets.MethodSet(t)
	for k := 0; k < ms.Len(); k++ {
		if f, ok := ms.At(k).Obj().(*types.Func); ok && f.Name() == name {
			return f
		}
	}
	return nil
}

// toNative converts an interpreter value to a Go value for fmt.
func toNative(fr *frame, v value) any {
	switch x := v.(type) {
	case bool, int, int8, int16, int32, int64, uint, uint8, uint16, uint32, uint64, uintptr, float32, float64, string:
		return x
	case sym:
		return toNative(fr, concrete(x))
	case symstr:
		return concreteString(x)
	case iface:
		if x.t == nil {
			return nil
		}
		if n, ok := x.t.(*types.Named); ok && n.Obj().Pkg() != nil && n.Obj().Pkg().Path() == "runtime" {
			if s, ok := x.v.(string); ok {
				if n.Obj().Name() == "errorString" {
					return nativeErr{"runtime error: " + s}
				}
				return nativeErr{s}
			}
		}
		if m := methodOf(fr.i, x.t, "Error"); m != nil && m.Type().(*types.Signature).Params().Len() == 0 {
			fn := fr.i.prog.LookupMethod(x.t, m.Pkg(), "Error")
			if fn != nil {
				s := call(fr.i, fr, token.NoPos, fn, []value{x.v})
				return nativeErr{concreteString(s)}
			}
		}
		if m := methodOf(fr.i, x.t, "String"); m != nil && m.Type().(*types.Signature).Params().Len() == 0 {
			fn := fr.i.prog.LookupMethod(x.t, m.Pkg(), "String")
			if fn != nil {
				s := call(fr.i, fr, token.NoPos, fn, []value{x.v})
				return nativeStr{concreteString(s)}
			}
		}
		switch u := x.t.Underlying().(type) {
		case *types.Basic:
			return toNative(fr, x.v)
		case *types.Slice:
			if b, ok := u.Elem().Underlying().(*types.Basic); ok && b.Kind() == types.Uint8 {
				return []byte(concreteString(mkstr(x.v.([]value))))
			}
			var out []any
			for _, e := range x.v.([]value) {
				out = append(out, toNative(fr, e))
			}
			return out
		case *types.Pointer:
			return fmt.Sprintf("%p", x.v)
		case *types.Map, *types.Struct:
			return toNative(fr, x.v)
		case *types.Array:
			// arrays of booleans keep their Go type so that %#v prints [N]bool{...} (the Basic Latin table)
			if b, ok := u.Elem().Underlying().(*types.Basic); ok && b.Kind() == types.Bool {
				arr := reflect.New(reflect.ArrayOf(int(u.Len()), reflect.TypeOf(false))).Elem()
				for k, e := range x.v.(array) {
					arr.Index(k).SetBool(toNative(fr, e).(bool))
				}
				return arr.Interface()
			}
		}
		unsupported("fmt argument of type %s", x.t)
	case []value:
		var out []any
		for _, e := range x {
			out = append(out, toNative(fr, e))
		}
		return out
	case *omap:
		out := map[string]any{}
		if x != nil {
			for _, e := range x.entries {
				if e.alive {
					out[fmt.Sprint(toNative(fr, e.key))] = toNative(fr, e.val)
				}
			}
		}
		return out
	case structure:
		if len(x) == 0 {
			return struct{}{}
		}
		var out []any
		for _, e := range x {
			out = append(out, toNative(fr, e))
		}
		return out
	}
	unsupported("fmt argument %T", v)
	return nil
}

func nativeArgs(fr *frame, va value) []any {
	var out []any
	for _, a := range va.([]value) {
		out = append(out, toNative(fr, a))
	}
	return out
}

func mkError(fr *frame, msg string) value {
	pkg := fr.i.prog.ImportedPackage("errors")
	if pkg == nil {
		unsupported("fmt.Errorf without package errors in the program")
	}
	return call(fr.i, fr, token.NoPos, pkg.Func("New"), []value{msg})
}

// wrappedArg returns the argument consumed by the %w verb (verbs are counted
// naively: every % followed by a non-% character consumes one argument).
func wrappedArg(format string, args []value) *iface {
	n := 0
	for k := 0; k+1 < len(format); k++ {
		if format[k] != '%' {
			continue
		}
		if format[k+1] == '%' {
			k++
			continue
		}
		j := k + 1
		for j < len(format) && strings.IndexByte("+-# 0123456789.", format[j]) >= 0 {
			j++
		}
		if j < len(format) && format[j] == 'w' {
			if n < len(args) {
				if e, ok := args[n].(iface); ok && e.t != nil {
					return &e
				}
			}
			return nil
		}
		n++
		k = j
	}
	return nil
}

func fieldIndex(t types.Type, name string) int {
	st := t.Underlying().(*types.Struct)
	for k := 0; k < st.NumFields(); k++ {
		if st.Field(k).Name() == name {
			return k
		}
	}
	panic("no field " + name)
}

func nop0(fr *frame, args []value) (value, bool) { return nil, true }

// fprint delivers formatted text to an io.Writer of the target program by
// calling its Write method; writes to *os.File (stdout/stderr) are only recorded.
func fprint(fr *frame, w value, text string) value {
	wi, ok := w.(iface)
	if !ok || wi.t == nil {
		return tuple{0, iface{}}
	}
	if p, ok := wi.t.(*types.Pointer); ok {
		if n, ok := p.Elem().(*types.Named); ok && n.Obj().Pkg() != nil && n.Obj().Pkg().Path() == "os" {
			// kept per path so that a harness can ask whether a diagnostic was printed (symOSOutput)
			if len(fr.i.osOut) < 1<<16 {
				fr.i.osOut += text
			}
			return tuple{len(text), iface{}}
		}
	}
	m := methodOf(fr.i, wi.t, "Write")
	if m == nil {
		unsupported("fmt.Fprint* to a writer without Write: %s", wi.t)
	}
	fn := fr.i.prog.LookupMethod(wi.t, m.Pkg(), "Write")
	return call(fr.i, fr, token.NoPos, fn, []value{wi.v, strBytes(text)})
}

func printNop(fr *frame, args []value) (value, bool) {
	return tuple{0, iface{}}, true
}

func init() {
	ext := map[string]externalFn{
		"fmt.Sprintf": func(fr *frame, args []value) (value, bool) {
			return fmt.Sprintf(concreteString(args[0]), nativeArgs(fr, args[1])...), true
		},
		"fmt.Sprint": func(fr *frame, args []value) (value, bool) {
			return fmt.Sprint(nativeArgs(fr, args[0])...), true
		},
		"fmt.Sprintln": func(fr *frame, args []value) (value, bool) {
			return fmt.Sprintln(nativeArgs(fr, args[0])...), true
		},
		"fmt.Errorf": func(fr *frame, args []value) (value, bool) {
			raw := concreteString(args[0])
			format := strings.ReplaceAll(raw, "%w", "%v")
			msg := fmt.Sprintf(format, nativeArgs(fr, args[1])...)
			if strings.Count(raw, "%w") == 1 {
				// keep the wrapped error reachable through Unwrap: *fmt.wrapError
				if w := wrappedArg(raw, args[1].([]value)); w != nil {
					if pkg := fr.i.prog.ImportedPackage("fmt"); pkg != nil {
						if t := pkg.Type("wrapError"); t != nil {
							var cell value = structure{msg, *w}
							return iface{types.NewPointer(t.Type()), &cell}, true
						}
					}
				}
			}
			return mkError(fr, msg), true
		},
		"fmt.Printf":  printNop,
		"fmt.Println": printNop,
		"fmt.Print":   printNop,
		"fmt.Fprintf": func(fr *frame, args []value) (value, bool) {
			return fprint(fr, args[0], fmt.Sprintf(concreteString(args[1]), nativeArgs(fr, args[2])...)), true
		},
		"fmt.Fprintln": func(fr *frame, args []value) (value, bool) {
			return fprint(fr, args[0], fmt.Sprintln(nativeArgs(fr, args[1])...)), true
		},
		"fmt.Fprint": func(fr *frame, args []value) (value, bool) {
			return fprint(fr, args[0], fmt.Sprint(nativeArgs(fr, args[1])...)), true
		},

		"(*sync.Pool).Get": func(fr *frame, args []value) (value, bool) {
			p := args[0].(*value)
			if fr.i.ex != nil && fr.i.ex.poolHook != nil {
				if v, ok := fr.i.ex.poolHook(fr, p); ok {
					return v, true
				}
			}
			lst := fr.i.pools[p]
			if n := len(lst); n > 0 {
				v := lst[n-1]
				fr.i.pools[p] = lst[:n-1]
				if fr.i.ex != nil && fr.i.ex.poolGotHook != nil {
					fr.i.ex.poolGotHook(v)
				}
				return v, true
			}
			st := (*p).(structure)
			newFn := st[fieldIndex(mustDeref(fr.fn.Signature.Recv().Type()), "New")]
			if f, ok := newFn.(*ssa.Function); ok && f == nil {
				return iface{}, true
			}
			return call(fr.i, fr, token.NoPos, newFn, nil), true
		},
		"(*sync.Pool).Put": func(fr *frame, args []value) (value, bool) {
			p := args[0].(*value)
			if fr.i.ex != nil && fr.i.ex.poolPutHook != nil {
				fr.i.ex.poolPutHook(fr, p, args[1])
			}
			fr.i.pools[p] = append(fr.i.pools[p], args[1])
			return nil, true
		},
		// sync.Map model (single thread of control): an insertion-ordered map per object. A mutation
		// counts as a store to the object for the ownership monitor (a package-level sync.Map is shared
		// mutable state however race-free it is).
		"(*sync.Map).Load": func(fr *frame, args []value) (value, bool) {
			m := syncMapOf(fr, args[0], false)
			if v, ok := m.lookup(args[1]); ok {
				return tuple{v, true}, true
			}
			return tuple{iface{}, false}, true
		},
		"(*sync.Map).Store": func(fr *frame, args []value) (value, bool) {
			syncMapOf(fr, args[0], true).insert(args[1], args[2])
			return nil, true
		},
		"(*sync.Map).LoadOrStore": func(fr *frame, args []value) (value, bool) {
			m := syncMapOf(fr, args[0], false)
			if v, ok := m.lookup(args[1]); ok {
				return tuple{v, true}, true
			}
			syncMapOf(fr, args[0], true).insert(args[1], args[2])
			return tuple{args[2], false}, true
		},
		"(*sync.Map).LoadAndDelete": func(fr *frame, args []value) (value, bool) {
			m := syncMapOf(fr, args[0], false)
			if v, ok := m.lookup(args[1]); ok {
				syncMapOf(fr, args[0], true).delete(args[1])
				return tuple{v, true}, true
			}
			return tuple{iface{}, false}, true
		},
		"(*sync.Map).Delete": func(fr *frame, args []value) (value, bool) {
			m := syncMapOf(fr, args[0], false)
			if _, ok := m.lookup(args[1]); ok {
				syncMapOf(fr, args[0], true).delete(args[1])
			}
			return nil, true
		},
		"(*sync.Map).Range": func(fr *frame, args []value) (value, bool) {
			m := syncMapOf(fr, args[0], false)
			for _, e := range append([]oentry{}, m.entries...) {
				if !e.alive {
					continue
				}
				if !truth(call(fr.i, fr, token.NoPos, args[1], []value{e.key, e.val})) {
					break
				}
			}
			return nil, true
		},
		"(*sync.Mutex).Lock":      nop0,
		"(*sync.Mutex).Unlock":    nop0,
		"(*sync.RWMutex).Lock":    nop0,
		"(*sync.RWMutex).Unlock":  nop0,
		"(*sync.RWMutex).RLock":   nop0,
		"(*sync.RWMutex).RUnlock": nop0,

		"(*strings.Builder).copyCheck": nop0,
		"(*strings.Builder).String": func(fr *frame, args []value) (value, bool) {
			b := (*args[0].(*value)).(structure)
			return mkstr(b[fieldIndex(mustDeref(fr.fn.Signature.Recv().Type()), "buf")].([]value)), true
		},
		"(*strings.Builder).grow": nop0,
		"(*strings.Builder).Grow": nop0,
		"strings.Clone": func(fr *frame, args []value) (value, bool) {
			return args[0], true
		},
		"internal/stringslite.Clone": func(fr *frame, args []value) (value, bool) {
			return args[0], true
		},
		"internal/bytealg.MakeNoZero": func(fr *frame, args []value) (value, bool) {
			n := asInt64(args[0])
			out := make([]value, n)
			for k := range out {
				out[k] = byte(0)
			}
			return out, true
		},
		"internal/bytealg.IndexByte": func(fr *frame, args []value) (value, bool) {
			return indexByte(args[0].([]value), args[1]), true
		},
		"internal/bytealg.IndexByteString": func(fr *frame, args []value) (value, bool) {
			return indexByte(strBytes(args[0]), args[1]), true
		},
		"internal/bytealg.CountString": func(fr *frame, args []value) (value, bool) {
			return countByte(strBytes(args[0]), args[1]), true
		},
		"internal/bytealg.Count": func(fr *frame, args []value) (value, bool) {
			return countByte(args[0].([]value), args[1]), true
		},
		"internal/bytealg.Equal": func(fr *frame, args []value) (value, bool) {
			return strEq(mkstr(args[0].([]value)), mkstr(args[1].([]value))), true
		},
		"internal/bytealg.Compare": func(fr *frame, args []value) (value, bool) {
			a, b := mkstr(args[0].([]value)), mkstr(args[1].([]value))
			if truth(strEq(a, b)) {
				return 0, true
			}
			if truth(strLess(a, b)) {
				return -1, true
			}
			return 1, true
		},
		"internal/bytealg.IndexString": func(fr *frame, args []value) (value, bool) {
			if !allConcrete(args) {
				unsupported("bytealg.IndexString on symbolic strings")
			}
			return strings.Index(concreteString(args[0]), concreteString(args[1])), true
		},
		"internal/bytealg.Index": func(fr *frame, args []value) (value, bool) {
			if !allConcrete(args) {
				unsupported("bytealg.Index on symbolic bytes")
			}
			return strings.Index(concreteString(mkstr(args[0].([]value))), concreteString(mkstr(args[1].([]value)))), true
		},
		"internal/bytealg.LastIndexByteString": func(fr *frame, args []value) (value, bool) {
			bs := strBytes(args[0])
			for k := len(bs) - 1; k >= 0; k-- {
				if truth(eqv(nil, bs[k], args[1])) {
					return k, true
				}
			}
			return -1, true
		},
		"internal/bytealg.LastIndexByte": func(fr *frame, args []value) (value, bool) {
			bs := args[0].([]value)
			for k := len(bs) - 1; k >= 0; k-- {
				if truth(eqv(nil, bs[k], args[1])) {
					return k, true
				}
			}
			return -1, true
		},
		"strconv.Itoa": func(fr *frame, args []value) (value, bool) {
			if s, ok := args[0].(sym); ok {
				return symItoa(s), true
			}
			return strconv.Itoa(args[0].(int)), true
		},
		"strconv.FormatInt": func(fr *frame, args []value) (value, bool) {
			if !allConcrete(args) {
				return nil, false
			}
			return strconv.FormatInt(args[0].(int64), args[1].(int)), true
		},
		"strconv.Quote": func(fr *frame, args []value) (value, bool) {
			if !allConcrete(args) {
				return nil, false
			}
			return strconv.Quote(args[0].(string)), true
		},
		// concrete fast paths (symbolic strings fall through to the interpreted library code)
		"strings.Index": func(fr *frame, args []value) (value, bool) {
			a, ok1 := args[0].(string)
			b, ok2 := args[1].(string)
			if !ok1 || !ok2 {
				return nil, false
			}
			return strings.Index(a, b), true
		},
		"strings.Contains": func(fr *frame, args []value) (value, bool) {
			a, ok1 := args[0].(string)
			b, ok2 := args[1].(string)
			if !ok1 || !ok2 {
				return nil, false
			}
			return strings.Contains(a, b), true
		},
		"strings.Repeat": func(fr *frame, args []value) (value, bool) {
			if !allConcrete(args) {
				return nil, false
			}
			n := args[1].(int)
			if n < 0 || n > 1<<20 {
				return nil, false
			}
			return strings.Repeat(args[0].(string), n), true
		},
		// sort.Slice / sort.SliceStable: reflectlite is not interpretable; a stable insertion sort
		// calling the less closure (any order among equal elements is within sort.Slice's contract)
		"sort.Slice":       sortSliceIntrinsic,
		"sort.SliceStable": sortSliceIntrinsic,
		"sort.Strings": func(fr *frame, args []value) (value, bool) {
			if !allConcrete(args) {
				return nil, false
			}
			xs := args[0].([]value)
			ss := make([]string, len(xs))
			for k, x := range xs {
				ss[k] = x.(string)
			}
			sort.Strings(ss)
			for k := range xs {
				xs[k] = ss[k]
			}
			return nil, true
		},
		"errors.As": func(fr *frame, args []value) (value, bool) {
			// errors.As(err, target): target is a non-nil pointer to a variable of an interface type or of a type
			// implementing error; the first error of the Unwrap chain assignable to it is stored there
			err, ok1 := args[0].(iface)
			target, ok2 := args[1].(iface)
			if !ok1 || !ok2 || target.t == nil {
				unsupported("errors.As: target")
			}
			pt, isPtr := target.t.Underlying().(*types.Pointer)
			cell, isCell := target.v.(*value)
			if !isPtr || !isCell || cell == nil {
				unsupported("errors.As: target is not a pointer to a variable")
			}
			elem := pt.Elem()
			for depth := 0; depth < 32; depth++ {
				if err.t == nil {
					return false, true
				}
				if it, isIface := elem.Underlying().(*types.Interface); isIface {
					if types.Implements(err.t, it) {
						*cell = err
						return true, true
					}
				} else if sameType(err.t, elem) {
					*cell = err.v
					return true, true
				}
				m := methodOf(fr.i, err.t, "Unwrap")
				if m == nil {
					return false, true
				}
				sig := m.Type().(*types.Signature)
				if sig.Results().Len() != 1 || !types.Identical(sig.Results().At(0).Type(), types.Universe.Lookup("error").Type()) {
					return false, true
				}
				fn := fr.i.prog.LookupMethod(err.t, m.Pkg(), "Unwrap")
				err = call(fr.i, fr, token.NoPos, fn, []value{err.v}).(iface)
			}
			return false, true
		},
		"errors.Is": func(fr *frame, args []value) (value, bool) {
			err, target := args[0].(iface), args[1].(iface)
			for depth := 0; depth < 32; depth++ {
				if err.t == nil {
					return target.t == nil, true
				}
				if sameType(err.t, target.t) {
					switch err.t.Underlying().(type) {
					case *types.Slice, *types.Map, *types.Signature:
					default:
						if truth(eqv(err.t, err.v, target.v)) {
							return true, true
						}
					}
				}
				m := methodOf(fr.i, err.t, "Unwrap")
				if m == nil {
					return false, true
				}
				sig := m.Type().(*types.Signature)
				if sig.Results().Len() != 1 || !types.Identical(sig.Results().At(0).Type(), types.Universe.Lookup("error").Type()) {
					return false, true
				}
				fn := fr.i.prog.LookupMethod(err.t, m.Pkg(), "Unwrap")
				err = call(fr.i, fr, token.NoPos, fn, []value{err.v}).(iface)
			}
			return false, true
		},
		"unicode.ToLower": func(fr *frame, args []value) (value, bool) {
			return asciiCase(args[0], true)
		},
		"unicode.ToUpper": func(fr *frame, args []value) (value, bool) {
			return asciiCase(args[0], false)
		},
		"math.Float64bits": func(fr *frame, args []value) (value, bool) {
			return math.Float64bits(args[0].(float64)), true
		},
		"math.Float64frombits": func(fr *frame, args []value) (value, bool) {
			return math.Float64frombits(args[0].(uint64)), true
		},
		"math.Float32bits": func(fr *frame, args []value) (value, bool) {
			return math.Float32bits(args[0].(float32)), true
		},
		"math.Float32frombits": func(fr *frame, args []value) (value, bool) {
			return math.Float32frombits(args[0].(uint32)), true
		},
		"os.Exit": func(fr *frame, args []value) (value, bool) {
			panic(targetPanic{iface{types.Typ[types.String], fmt.Sprintf("os.Exit(%d)", asInt64(args[0]))}})
		},
		"runtime.GC":      nop0,
		"runtime.Gosched": nop0,
	}
	for k, v := range ext {
		externals[k] = v
	}
	_ = errors.New
}

func indexByte(bs []value, c value) value {
	for k, b := range bs {
		if truth(eqv(nil, b, c)) {
			return k
		}
	}
	return -1
}

func countByte(bs []value, c value) value {
	n := 0
	for _, b := range bs {
		if truth(eqv(nil, b, c)) {
			n++
		}
	}
	return n
}

// asciiCase summarises unicode.ToLower / ToUpper on a symbolic rune: one fork
// on r <= 0x7F; the ASCII side is a closed formula (validated exhaustively
// against the native function in init below), the other side is left to the
// interpreted library code.
func asciiCase(v value, lower bool) (value, bool) {
	s, ok := v.(sym)
	if !ok {
		return nil, false
	}
	p := s.t.P
	if !p.ex.Decide(p.Bin(OpSle, s.t, p.Const(32, 0x7F))) {
		return nil, false
	}
	lo, hi, delta := uint64('A'), uint64('Z'), uint64(32)
	if !lower {
		lo, hi, delta = 'a', 'z', uint64(0xFFFFFFE0)
	}
	in := p.And(p.Bin(OpSle, p.Const(32, lo), s.t), p.Bin(OpSle, s.t, p.Const(32, hi)))
	return norm(p.Ite(in, p.Bin(OpAdd, s.t, p.Const(32, delta)), s.t), s.k), true
}

func init() {
	for r := rune(-2); r < 128; r++ {
		wantL, wantU := r, r
		if 'A' <= r && r <= 'Z' {
			wantL = r + 32
		}
		if 'a' <= r && r <= 'z' {
			wantU = r - 32
		}
		if unicode.ToLower(r) != wantL || unicode.ToUpper(r) != wantU {
			panic("asciiCase summary disagrees with package unicode")
		}
	}
}

// symItoa is strconv.Itoa on a symbolic int: the number of digits is decided
// (one fork per length), the digits are terms. Values outside [0, 10^9) are
// concretised. Summary of a pure library function, validated against the
// native strconv.Itoa in TestSymItoa-style self checks of the engine (see
// selftest) on the boundary values of every length.
func symItoa(s sym) value {
	p := s.t.P
	t := s.t // 64-bit
	neg := p.Bin(OpSlt, t, p.Const(64, 0))
	big := p.Not(p.Bin(OpSlt, t, p.Const(64, 1000000000)))
	if p.ex.Decide(p.Or(neg, big)) {
		return strconv.Itoa(int(concreteInt64(s)))
	}
	t32 := p.Extract(t, 0, 32)
	n := 1
	lim := uint64(10)
	for n < 9 {
		if p.ex.Decide(p.Bin(OpUlt, t32, p.Const(32, lim))) {
			break
		}
		n++
		lim *= 10
	}
	out := make([]value, n)
	div := uint64(1)
	for k := n - 1; k >= 0; k-- {
		d := p.Bin(OpURem, p.Bin(OpUDiv, t32, p.Const(32, div)), p.Const(32, 10))
		ch := p.Bin(OpAdd, p.Extract(d, 0, 8), p.Const(8, '0'))
		out[k] = norm(ch, types.Uint8)
		div *= 10
	}
	return mkstr(out)
}

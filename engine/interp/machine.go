package interp

// Machine: one interpreter instance (own globals) bound to one explorer; the
// harness intrinsics; per-path reset of the packages under test.

import (
	"fmt"
	"go/token"
	"go/types"
	"os"
	"runtime"
	"sort"
	"strings"
	"time"

	"golang.org/x/tools/go/ssa"
)

type monitor struct {
	events     int // observations made (a monitor that matches no function of the code under test is blind)
	onEnter    func(fr *frame, fn *ssa.Function, args []value)
	onExit     func(fr *frame, fn *ssa.Function)
	onStore    func(fr *frame, addr *value)
	onMapWrite func(fr *frame, m *omap)
	onMapRead  func(fr *frame, m *omap)
}

type Config struct {
	UnderTest   func(pkgPath string) bool // packages re-initialised per path
	LibInit     func(pkgPath string) bool // library packages initialised once
	MaxSteps    int64
	MaxDepth    int
	MaxPaths    int
	Timeout     time.Duration
	SampleEvery int
	Trace       bool
	SolverName  string
	SolverMs    int
	SolverLog   string
}

type Machine struct {
	i        *interpreter
	prog     *ssa.Program
	cfg      Config
	ex       *Explorer
	libDone  bool
	called   map[*ssa.Function]bool
	utPkgs   []*ssa.Package
	allPkgs  []*ssa.Package
	utGlobal []*ssa.Global
}

var defaultLib = map[string]bool{
	"unicode": true, "unicode/utf8": true, "unicode/utf16": true, "strconv": true, "strings": true, "bytes": true,
	"sort": true, "io": true, "math": true, "math/bits": true, "slices": true, "cmp": true,
	"internal/strconv": true, "internal/stringslite": true, "internal/bytealg": false,
}

func DefaultLibInit(p string) bool { return defaultLib[p] }

func NewMachine(prog *ssa.Program, cfg Config) (*Machine, error) {
	if cfg.MaxSteps == 0 {
		cfg.MaxSteps = 2_000_000
	}
	if cfg.MaxDepth == 0 {
		cfg.MaxDepth = 2000
	}
	if cfg.LibInit == nil {
		cfg.LibInit = DefaultLibInit
	}
	if cfg.SolverMs == 0 {
		cfg.SolverMs = 10000
	}
	s, err := NewSolver(SolverArgv(cfg.SolverName, cfg.SolverMs), cfg.SolverMs)
	if err != nil {
		return nil, err
	}
	if cfg.SolverLog != "" {
		f, err := os.Create(cfg.SolverLog)
		if err == nil {
			s.Log = f
		}
	}
	m := &Machine{prog: prog, cfg: cfg}
	i := &interpreter{
		prog:     prog,
		globals:  make(map[*ssa.Global]*value),
		sizes:    &types.StdSizes{WordSize: 8, MaxAlign: 8},
		maxSteps: cfg.MaxSteps,
		maxDepth: cfg.MaxDepth,
		pools:    make(map[*value][]value),
		syncMaps: make(map[*value]*omap),
	}
	if cfg.Trace {
		i.mode |= EnableTracing
	}
	if rp := prog.ImportedPackage("runtime"); rp != nil {
		if t := rp.Type("errorString"); t != nil {
			i.runtimeErrorString = t.Object().Type()
		}
	}
	i.initAllow = func(p string) bool { return cfg.UnderTest(p) || cfg.LibInit(p) }
	i.underTest = cfg.UnderTest
	m.i = i
	for _, pkg := range prog.AllPackages() {
		m.allPkgs = append(m.allPkgs, pkg)
	}
	sort.Slice(m.allPkgs, func(a, b int) bool { return m.allPkgs[a].Pkg.Path() < m.allPkgs[b].Pkg.Path() })
	for _, pkg := range m.allPkgs {
		ut := cfg.UnderTest(pkg.Pkg.Path())
		if ut {
			m.utPkgs = append(m.utPkgs, pkg)
		}
		var names []string
		for n, mem := range pkg.Members {
			if _, ok := mem.(*ssa.Global); ok {
				names = append(names, n)
			}
		}
		sort.Strings(names)
		for _, n := range names {
			g := pkg.Members[n].(*ssa.Global)
			cell := zero(mustDeref(g.Type()))
			i.globals[g] = &cell
			if ut {
				m.utGlobal = append(m.utGlobal, g)
			}
		}
	}
	m.ex = NewExplorer(s)
	i.ex = m.ex
	// library packages are initialised once, concretely
	i.maxSteps = 1 << 40
	m.ex.Res = &JobResult{}
	for _, pkg := range m.allPkgs {
		if cfg.LibInit(pkg.Pkg.Path()) && !cfg.UnderTest(pkg.Pkg.Path()) {
			if init := pkg.Func("init"); init != nil {
				if err := m.safeCall(init); err != nil {
					return nil, fmt.Errorf("init of %s: %v", pkg.Pkg.Path(), err)
				}
			}
		}
	}
	i.maxSteps = cfg.MaxSteps
	return m, nil
}

func (m *Machine) Close() { m.ex.S.Close() }

func (m *Machine) safeCall(fn *ssa.Function) (err error) {
	defer func() {
		if p := recover(); p != nil {
			err = fmt.Errorf("%v", p)
		}
	}()
	call(m.i, nil, token.NoPos, fn, nil)
	return nil
}

// resetPath re-zeroes the globals of the packages under test, clears the
// pool model and counters; library packages are initialised on first use.
func (m *Machine) resetPath() {
	i := m.i
	i.steps = 0
	i.depth = 0
	i.pools = make(map[*value][]value)
	i.syncMaps = make(map[*value]*omap)
	i.stubs = nil
	i.monitor = nil
	i.panicOrigin = nil
	i.osOut = ""
	i.stdin, i.stdinOff = nil, 0
	for _, g := range m.utGlobal {
		*i.globals[g] = zero(mustDeref(g.Type()))
	}
}

// RunJob explores harness fn with the integer argument arg.
func (m *Machine) RunJob(fn *ssa.Function, arg int, res *JobResult) {
	ex := m.ex
	ex.MaxPaths = m.cfg.MaxPaths
	if ex.MaxPaths == 0 {
		ex.MaxPaths = 1 << 30
	}
	if m.cfg.Timeout > 0 {
		ex.Deadline = time.Now().Add(m.cfg.Timeout)
	} else {
		ex.Deadline = time.Time{}
	}
	ex.SampleEvery = m.cfg.SampleEvery
	ex.Pool = NewTermPool()
	ex.Pool.ex = ex
	q0, t0 := ex.S.Queries, ex.S.Time
	ex.S.Errors = nil
	m.called = make(map[*ssa.Function]bool)
	pkg := fn.Pkg
	ex.Run(res, func() (outcome string) {
		m.resetPath()
		defer func() {
			if m.i.steps > res.MaxPathSteps {
				res.MaxPathSteps = m.i.steps
			}
			res.Steps += m.i.steps
			p := recover()
			if p == nil {
				return
			}
			switch p := asAbort(p).(type) {
			case pathEnd:
				if strings.HasPrefix(p.reason, "assume") {
					outcome = "dropped"
				} else {
					outcome = p.reason
				}
			case engineError:
				if strings.Contains(p.msg, "step limit") && !ex.replaying() {
					// possible non-termination: hand the model to the native replay,
					// which decides (a hang under a timeout is the confirmation)
					ex.addCex("step limit exceeded (possible non-termination): "+firstLine(p.msg), ex.model())
				}
				ex.inconclusive(firstLine(p.msg))
				if os.Getenv("GOSYM_DEBUG") != "" {
					fmt.Fprintln(os.Stderr, "engine error:", p.msg)
				}
				outcome = "inconclusive"
			case targetPanic:
				// a panic escaping the harness is reported as a failed assertion
				msg := "uncaught panic: " + toString(p.v)
				if !ex.replaying() {
					ex.addCex(msg, ex.model())
				}
				outcome = "panic"
			case runtime.Error:
				msg := "uncaught runtime panic: " + p.Error()
				if o := m.i.panicOrigin; o != nil && isHarnessFunc(o) {
					// a run-time error of the harness or of the reference interpreter is a defect of the
					// machinery, not a property of the code under test: never a counterexample
					ex.inconclusive("run-time error inside harness code (" + o.String() + "): " + p.Error())
					outcome = "inconclusive"
					return
				}
				if strings.Contains(p.Error(), "interp.") || os.Getenv("GOSYM_DEBUG") != "" {
					buf := make([]byte, 8192)
					buf = buf[:runtime.Stack(buf, false)]
					fmt.Fprintln(os.Stderr, msg, "\n", string(buf))
				}
				if !ex.replaying() {
					ex.addCex(msg, ex.model())
				}
				outcome = "panic"
			case string:
				msg := "uncaught runtime panic: " + p
				if o := m.i.panicOrigin; o != nil && isHarnessFunc(o) {
					ex.inconclusive("run-time error inside harness code (" + o.String() + "): " + p)
					outcome = "inconclusive"
					return
				}
				if !ex.replaying() {
					ex.addCex(msg, ex.model())
				}
				outcome = "panic"
			default:
				panic(p)
			}
		}()
		if init := pkg.Func("init"); init != nil {
			call(m.i, nil, token.NoPos, init, nil)
		}
		m.i.fresh = func() {
			steps, depth := m.i.steps, m.i.depth
			m.resetPath()
			m.i.steps, m.i.depth = steps, depth
			if init := pkg.Func("init"); init != nil {
				call(m.i, nil, token.NoPos, init, nil)
			}
		}
		var args []value
		if fn.Signature.Params().Len() == 1 {
			args = []value{arg}
		}
		call(m.i, nil, token.NoPos, fn, args)
		return "ok"
	})
	res.Queries = ex.S.Queries - q0
	res.SolverS = (ex.S.Time - t0).Seconds()
}

// isHarnessFunc: the function belongs to a harness file (shim, harness, oracle
// data) or to the reference interpreter.
func isHarnessFunc(fn *ssa.Function) bool {
	for f := fn; f != nil; f = f.Parent() {
		fn = f
	}
	if fn.Pkg != nil {
		pp := fn.Pkg.Pkg.Path()
		if pp == "vh/ref" || strings.HasSuffix(pp, "/hx") {
			return true
		}
	}
	if fn.Prog == nil || !fn.Pos().IsValid() {
		return false
	}
	name := fn.Prog.Fset.Position(fn.Pos()).Filename
	if k := strings.LastIndexByte(name, '/'); k >= 0 {
		name = name[k+1:]
	}
	return strings.HasPrefix(name, "zz_") || name == "h.go" || name == "lemmas.go" || name == "refg.go"
}

func firstLine(s string) string {
	if i := strings.IndexByte(s, '\n'); i >= 0 {
		return s[:i]
	}
	return s
}

// ------------------------------------------------------------------
// harness intrinsics (package-local shim functions intercepted by name)

type harnessFn func(fr *frame, args []value) value

func harnessIntrinsic(fn *ssa.Function) harnessFn {
	name := fn.Name()
	if !strings.HasPrefix(name, "sym") || fn.Signature.Recv() != nil {
		return nil
	}
	return harnessTable[name]
}

var harnessTable map[string]harnessFn

func init() {
	harnessTable = map[string]harnessFn{
		"symBytes": func(fr *frame, args []value) value {
			name := concreteString(args[0])
			n := int(asInt64(args[1]))
			out := make([]value, n)
			for k := 0; k < n; k++ {
				out[k] = sym{fr.i.ex.NewVar(fmt.Sprintf("%s_%d", name, k), 8), types.Uint8}
			}
			return out
		},
		"symByte": func(fr *frame, args []value) value {
			return sym{fr.i.ex.NewVar(concreteString(args[0]), 8), types.Uint8}
		},
		"symBool": func(fr *frame, args []value) value {
			return sym{fr.i.ex.NewVar(concreteString(args[0]), 0), types.Bool}
		},
		"symRune": func(fr *frame, args []value) value {
			return sym{fr.i.ex.NewVar(concreteString(args[0]), 32), types.Int32}
		},
		"symInt": func(fr *frame, args []value) value {
			ex := fr.i.ex
			t := ex.NewVar(concreteString(args[0]), 64)
			lo, hi := asInt64(args[1]), asInt64(args[2])
			p := ex.Pool
			c := p.And(p.Bin(OpSle, p.Const(64, uint64(lo)), t), p.Bin(OpSle, t, p.Const(64, uint64(hi))))
			ex.Assume(norm(c, types.Bool))
			return sym{t, types.Int}
		},
		"symU64": func(fr *frame, args []value) value {
			return sym{fr.i.ex.NewVar(concreteString(args[0]), 64), types.Uint64}
		},
		"symChoose": func(fr *frame, args []value) value {
			return fr.i.ex.ChooseNamed(concreteString(args[0]), int(asInt64(args[1])))
		},
		"symSkip": func(fr *frame, args []value) value {
			// the named function is skipped (returns the zero value): a declared stub
			if fr.i.stubs == nil {
				fr.i.stubs = make(map[string]value)
			}
			fr.i.stubs[concreteString(args[0])] = skipStub{}
			return nil
		},
		"symOrderMode": func(fr *frame, args []value) value {
			installOrderMode(fr.i.ex, int(asInt64(args[0])))
			return nil
		},
		"symMonitor": func(fr *frame, args []value) value {
			installMonitor(fr.i, concreteString(args[0]))
			return nil
		},
		"symConcretize": func(fr *frame, args []value) value {
			return int(concreteInt64(args[0]))
		},
		"symConcretizeRune": func(fr *frame, args []value) value {
			return int32(concreteInt64(args[0]))
		},
		"symAssume": func(fr *frame, args []value) value {
			fr.i.ex.Assume(args[0])
			return nil
		},
		"symAssert": func(fr *frame, args []value) value {
			fr.i.ex.Assert(args[0], concreteString(args[1]))
			return nil
		},
		"symEqual": func(fr *frame, args []value) value {
			return deepEq(args[0], args[1], 0)
		},
		"symReach": func(fr *frame, args []value) value {
			fr.i.ex.Reach(concreteString(args[0]))
			return nil
		},
		"symShare": func(fr *frame, args []value) value {
			// everything reachable from the argument may be shared between concurrent calls (C18): the
			// ownership monitor, which must be installed already, treats a write to it like a write to a
			// package-level object
			if fr.i.ownShare == nil {
				unsupported("symShare without an ownership monitor")
			}
			fr.i.ownShare(args[0])
			return nil
		},
		"symFreshProcess": func(fr *frame, args []value) value {
			fr.i.fresh()
			return nil
		},
		"symSetStdin": func(fr *frame, args []value) value {
			b, _ := args[0].([]value)
			fr.i.stdin = append([]value(nil), b...)
			fr.i.stdinOff = 0
			return nil
		},
		"symOSOutput": func(fr *frame, args []value) value {
			// everything fmt.Fprint* wrote to an *os.File on this path
			return fr.i.osOut
		},
		"symMonitorEvents": func(fr *frame, args []value) value {
			if fr.i.monitor == nil {
				return 0
			}
			return fr.i.monitor.events
		},
		"symMode": func(fr *frame, args []value) value {
			return "both"
		},
		"symNote": func(fr *frame, args []value) value {
			fr.i.ex.Note(concreteString(args[0]))
			return nil
		},
		"symInSet": func(fr *frame, args []value) value {
			set := concreteString(args[1])
			s, ok := args[0].(sym)
			if !ok {
				b := args[0].(byte)
				for k := 0; k < len(set); k++ {
					if set[k] == b {
						return true
					}
				}
				return false
			}
			p := s.t.P
			acc := p.False
			for k := 0; k < len(set); k++ {
				acc = p.Or(acc, p.Eq(s.t, p.Const(8, uint64(set[k]))))
			}
			return norm(acc, types.Bool)
		},
		"symAnd":   func(fr *frame, args []value) value { return andv(args[0], args[1]) },
		"symOr":    func(fr *frame, args []value) value { return notv(andv(notv(args[0]), notv(args[1]))) },
		"symNot":   func(fr *frame, args []value) value { return notv(args[0]) },
		"symDebug": func(fr *frame, args []value) value { return nil },
		"symIsSymbolic": func(fr *frame, args []value) value {
			return true
		},
		"symStub": func(fr *frame, args []value) value {
			if fr.i.stubs == nil {
				fr.i.stubs = make(map[string]value)
			}
			fr.i.stubs[concreteString(args[0])] = args[1].(iface).v
			return nil
		},
		"symString": func(fr *frame, args []value) value {
			// string with symbolic bytes
			name := concreteString(args[0])
			n := int(asInt64(args[1]))
			out := make([]value, n)
			for k := 0; k < n; k++ {
				out[k] = sym{fr.i.ex.NewVar(fmt.Sprintf("%s_%d", name, k), 8), types.Uint8}
			}
			return mkstr(out)
		},
	}
}

// deepEq is reflect.DeepEqual-like structural equality over interpreter
// values that yields a term where symbolic scalars are involved.
func deepEq(x, y value, depth int) value {
	if depth > 64 {
		unsupported("symEqual: nesting too deep (cyclic value?)")
	}
	switch xv := x.(type) {
	case iface:
		yv, ok := y.(iface)
		if !ok {
			return false
		}
		if xv.t == nil || yv.t == nil {
			return xv.t == nil && yv.t == nil
		}
		if !types.Identical(xv.t, yv.t) {
			// values of package-local named types of identical structure compare
			// structurally (the same catalogue type in two generated packages)
			nx, ok1 := xv.t.(*types.Named)
			ny, ok2 := yv.t.(*types.Named)
			if !(ok1 && ok2 && nx.Obj().Name() == ny.Obj().Name() && types.Identical(nx.Underlying(), ny.Underlying())) {
				if !(ok1 && ok2 && nx.Obj().Name() == ny.Obj().Name() && sameShape(nx.Underlying(), ny.Underlying())) {
					return false
				}
			}
		}
		return deepEq(xv.v, yv.v, depth+1)
	case []value:
		yv, ok := y.([]value)
		if !ok {
			return false
		}
		if (xv == nil) != (yv == nil) || len(xv) != len(yv) {
			return false
		}
		var acc value = true
		for i := range xv {
			acc = andv(acc, deepEq(xv[i], yv[i], depth+1))
			if b, ok := acc.(bool); ok && !b {
				return false
			}
		}
		return acc
	case structure:
		yv, ok := y.(structure)
		if !ok || len(xv) != len(yv) {
			return false
		}
		var acc value = true
		for i := range xv {
			acc = andv(acc, deepEq(xv[i], yv[i], depth+1))
			if b, ok := acc.(bool); ok && !b {
				return false
			}
		}
		return acc
	case array:
		yv, ok := y.(array)
		if !ok || len(xv) != len(yv) {
			return false
		}
		var acc value = true
		for i := range xv {
			acc = andv(acc, deepEq(xv[i], yv[i], depth+1))
			if b, ok := acc.(bool); ok && !b {
				return false
			}
		}
		return acc
	case *value:
		yv, ok := y.(*value)
		if !ok {
			return false
		}
		if xv == nil || yv == nil {
			return xv == yv
		}
		if xv == yv {
			return true
		}
		return deepEq(*xv, *yv, depth+1)
	case *omap:
		yv, ok := y.(*omap)
		if !ok {
			return false
		}
		if (xv == nil) != (yv == nil) || xv.len() != yv.len() {
			return false
		}
		var acc value = true
		if xv != nil {
			for _, e := range xv.entries {
				if !e.alive {
					continue
				}
				v2, ok := yv.lookup(e.key)
				if !ok {
					return false
				}
				acc = andv(acc, deepEq(e.val, v2, depth+1))
			}
		}
		return acc
	case string, symstr:
		if !isStr(y) {
			return false
		}
		return strEq(x, y)
	case sym, bool, int, int8, int16, int32, int64, uint, uint8, uint16, uint32, uint64, uintptr:
		if _, ok := kindOf(y); !ok && !isSym(y) {
			return false
		}
		p := poolOf(x, y)
		if p == nil {
			kx, _ := kindOf(x)
			ky, _ := kindOf(y)
			return kx == ky && scalarBits(x) == scalarBits(y)
		}
		tx, _ := lift(p, x)
		ty, _ := lift(p, y)
		if tx.W != ty.W {
			return false
		}
		return norm(p.Eq(tx, ty), types.Bool)
	case float32:
		yv, ok := y.(float32)
		return ok && xv == yv
	case float64:
		yv, ok := y.(float64)
		return ok && xv == yv
	case *ssa.Function:
		yv, ok := y.(*ssa.Function)
		return ok && xv == yv
	case *closure:
		yv, ok := y.(*closure)
		return ok && xv == yv
	case tuple:
		yv, ok := y.(tuple)
		if !ok || len(xv) != len(yv) {
			return false
		}
		var acc value = true
		for i := range xv {
			acc = andv(acc, deepEq(xv[i], yv[i], depth+1))
		}
		return acc
	}
	unsupported("symEqual on %T", x)
	return false
}

func sameShape(a, b types.Type) bool {
	sa, ok1 := a.(*types.Struct)
	sb, ok2 := b.(*types.Struct)
	if ok1 && ok2 {
		if sa.NumFields() != sb.NumFields() {
			return false
		}
		for i := 0; i < sa.NumFields(); i++ {
			if sa.Field(i).Name() != sb.Field(i).Name() {
				return false
			}
		}
		return true
	}
	return types.Identical(a, b)
}

// installMonitor installs an engine-side observer requested by a harness.
//
//	"reentry": no generated parseRule may be entered for a (rule, offset) pair
//	           that is already being evaluated (C07: unbounded recursion).
func installMonitor(i *interpreter, kind string) {
	switch kind {
	case "reentry":
		type key struct {
			rule *value
			off  int64
		}
		active := map[key]int{}
		var stack []key
		i.monitor = &monitor{
			onEnter: func(fr *frame, fn *ssa.Function, args []value) {
				if fn.Name() != "parseRule" || fn.Signature.Recv() == nil || len(args) != 2 {
					return
				}
				p := (*args[0].(*value)).(structure)
				pt := p[fieldIndex(mustDeref(fn.Signature.Recv().Type()), "pt")].(structure)
				pos := pt[0].(structure)
				off := asInt64raw(pos[2])
				k := key{args[1].(*value), off}
				fr.i.monitor.events++
				if active[k] > 0 {
					name := ""
					if r, ok := (*k.rule).(structure); ok && len(r) > 1 {
						if s, ok := r[1].(string); ok {
							name = s
						}
					}
					fr.i.ex.addCex(fmt.Sprintf("C07: rule %s re-entered at offset %d while it is being evaluated there (unbounded recursion)", name, off), fr.i.ex.model())
					panic(pathEnd{"assertion failed"})
				}
				active[k]++
				stack = append(stack, k)
			},
			onExit: func(fr *frame, fn *ssa.Function) {
				if fn.Name() != "parseRule" || fn.Signature.Recv() == nil || len(stack) == 0 {
					return
				}
				k := stack[len(stack)-1]
				stack = stack[:len(stack)-1]
				active[k]--
			},
			onStore:    func(fr *frame, addr *value) {},
			onMapWrite: func(fr *frame, m *omap) {},
			onMapRead:  func(fr *frame, m *omap) {},
		}
	case "off":
		i.monitor = nil
	case "expronce":
		// C06: under Memoize(true) every (expression, offset) pair is evaluated at most once
		type key struct {
			expr value
			off  int64
		}
		seen := map[key]int{}
		i.monitor = &monitor{
			onEnter: func(fr *frame, fn *ssa.Function, args []value) {
				if fn.Name() != "parseExpr" || fn.Signature.Recv() == nil || len(args) != 2 {
					return
				}
				p := (*args[0].(*value)).(structure)
				pt := p[fieldIndex(mustDeref(fn.Signature.Recv().Type()), "pt")].(structure)
				off := asInt64raw(pt[0].(structure)[2])
				e, ok := args[1].(iface)
				if !ok {
					return
				}
				k := key{e.v, off}
				fr.i.monitor.events++
				seen[k]++
				if seen[k] > 1 {
					fr.i.ex.addCex(fmt.Sprintf("C06: an expression (%s) is evaluated a second time at offset %d although Memoize is on", e.t, off), fr.i.ex.model())
					panic(pathEnd{"assertion failed"})
				}
			},
			onExit:     func(fr *frame, fn *ssa.Function) {},
			onStore:    func(fr *frame, addr *value) {},
			onMapWrite: func(fr *frame, m *omap) {},
			onMapRead:  func(fr *frame, m *omap) {},
		}
	case "ownership":
		installOwnership(i, 1)
	case "ownership-lifo":
		installOwnership(i, 0)
	default:
		unsupported("unknown monitor %q", kind)
	}
}

// installOwnership enforces the discipline that makes concurrent Parse calls
// independent (C18): from now on
//  1. no Store / map update / delete may target an object reachable from a
//     package-level variable of the packages under test (those are shared by
//     all goroutines; they may only be read);
//  2. a map handed to sync.Pool.Put must be empty and must not be touched again
//     by this call until Pool.Get returns it;
//  3. Pool.Get returns nondeterministically a fresh map or ANY map that was
//     ever Put (another goroutine may have put it): results must not depend
//     on the choice.
func installOwnership(i *interpreter, poolBudget int) {
	shared := map[*value]bool{}
	sharedMaps := map[*omap]bool{}
	seenSlices := map[*value]bool{}
	var walk func(v value, depth int)
	walk = func(v value, depth int) {
		if depth > 200 {
			return
		}
		switch x := v.(type) {
		case *value:
			if x == nil || shared[x] {
				return
			}
			shared[x] = true
			walk(*x, depth+1)
		case structure:
			for k := range x {
				shared[&x[k]] = true
				walk(x[k], depth+1)
			}
		case array:
			for k := range x {
				shared[&x[k]] = true
				walk(x[k], depth+1)
			}
		case []value:
			// the whole backing array counts, spare capacity included: an append within the
			// capacity of a package-level slice writes there
			x = x[:cap(x)]
			if len(x) == 0 || seenSlices[&x[0]] {
				return
			}
			seenSlices[&x[0]] = true
			for k := range x {
				shared[&x[k]] = true
				walk(x[k], depth+1)
			}
		case iface:
			if x.t != nil {
				walk(x.v, depth+1)
			}
		case *omap:
			if x == nil || sharedMaps[x] {
				return
			}
			sharedMaps[x] = true
			for _, e := range x.entries {
				if e.alive {
					walk(e.key, depth+1)
					walk(e.val, depth+1)
				}
			}
		case *closure:
			for _, e := range x.Env {
				walk(e, depth+1)
			}
		case tuple:
			for _, e := range x {
				walk(e, depth+1)
			}
		}
	}
	for g, cell := range i.globals {
		if g.Pkg != nil && i.underTest != nil && i.underTest(g.Pkg.Pkg.Path()) {
			// the variable itself and everything reachable from it
			shared[cell] = true
			walk(*cell, 0)
		}
	}
	// objects handed over with symShare (values held by Option values the caller may pass to several calls)
	optObj := map[*value]bool{}
	optMaps := map[*omap]bool{}
	i.ownShare = func(v value) {
		before, beforeM := map[*value]bool{}, map[*omap]bool{}
		for k := range shared {
			before[k] = true
		}
		for k := range sharedMaps {
			beforeM[k] = true
		}
		walk(v, 0)
		for k := range shared {
			if !before[k] {
				optObj[k] = true
			}
		}
		for k := range sharedMaps {
			if !beforeM[k] {
				optMaps[k] = true
			}
		}
	}
	released := map[*omap]bool{}
	ex := i.ex
	fail := func(fr *frame, msg string) {
		ex.addCex("C18: "+msg+" (in "+fr.fn.String()+")", ex.model())
		panic(pathEnd{"assertion failed"})
	}
	i.monitor = &monitor{
		onEnter: func(fr *frame, fn *ssa.Function, args []value) {},
		onExit:  func(fr *frame, fn *ssa.Function) {},
		onStore: func(fr *frame, addr *value) {
			if optObj[addr] {
				fail(fr, "a value held by an Option is written during Parse (the same Option value may be passed to concurrent calls)")
			}
			if shared[addr] {
				fail(fr, "a package-level object is written during Parse")
			}
		},
		onMapWrite: func(fr *frame, m *omap) {
			if optMaps[m] {
				fail(fr, "a map held by an Option is written during Parse (the same Option value may be passed to concurrent calls)")
			}
			if sharedMaps[m] {
				fail(fr, "a package-level map is written during Parse")
			}
			if released[m] {
				fail(fr, "a state map is written after it was returned to the pool")
			}
		},
		onMapRead: func(fr *frame, m *omap) {
			if released[m] {
				fail(fr, "a state map is read after it was returned to the pool")
			}
		},
	}
	ex.poolPutHook = func(fr *frame, pool *value, v value) {
		if it, ok := v.(iface); ok {
			if m, ok := it.v.(*omap); ok && m != nil {
				if m.len() != 0 {
					fail(fr, "a non-empty map is returned to the pool")
				}
				released[m] = true
			}
		}
	}
	ex.poolGotHook = func(v value) {
		if it, ok := v.(iface); ok {
			if m, ok := it.v.(*omap); ok {
				delete(released, m)
			}
		}
	}
	// Deviations from the LIFO model are delay-bounded (at most poolBudget Get
	// calls per path pick another pooled map or a fresh one): pooled maps are
	// empty and indistinguishable when discipline 2 holds, which is checked on
	// every path.
	ex.poolHook = func(fr *frame, pool *value) (value, bool) {
		cands := fr.i.pools[pool]
		if poolBudget == 0 || len(cands) == 0 {
			return nil, false // LIFO model / New
		}
		// 0: LIFO top (default), 1: a fresh map although the pool is not empty, 2: the oldest pooled map
		nalt := 2
		if len(cands) > 1 {
			nalt = 3
		}
		c := ex.ChooseNamed("poolget", nalt)
		if c == 0 {
			return nil, false
		}
		poolBudget--
		if c == 1 {
			st := (*pool).(structure)
			newFn := st[len(st)-1]
			return call(fr.i, fr, token.NoPos, newFn, nil), true
		}
		k := 0
		v := cands[k]
		fr.i.pools[pool] = append(append([]value{}, cands[:k]...), cands[k+1:]...)
		if it, ok := v.(iface); ok {
			if m, ok := it.v.(*omap); ok {
				delete(released, m)
			}
		}
		return v, true
	}
}

type skipStub struct{}

// installOrderMode makes every later `range` over a map with >= 2 entries pick
// its iteration order nondeterministically: the insertion order, or one of a
// set of alternative permutations (all of them for <= 3 entries). At most d
// range instances per path deviate from the insertion order (delay bound).
func installOrderMode(ex *Explorer, d int) {
	budget := d
	if d <= 0 {
		ex.orderHook = nil
		return
	}
	ex.orderHook = func(fr *frame, m *omap) []int {
		if budget == 0 {
			return nil
		}
		var live []int
		for i, e := range m.entries {
			if e.alive {
				live = append(live, i)
			}
		}
		k := len(live)
		if k < 2 {
			return nil
		}
		alts := permutations(k)
		c := ex.ChooseNamed("order", 1+len(alts))
		if c == 0 {
			return nil
		}
		budget--
		out := make([]int, k)
		for i, p := range alts[c-1] {
			out[i] = live[p]
		}
		ex.Note(fmt.Sprintf("order %v of %d keys in %s", alts[c-1], k, fr.fn.String()))
		return out
	}
}

// permutations returns non-identity permutations of 0..k-1: all of them for
// k <= 3; for larger k the reversal, the rotation by one and every adjacent
// transposition.
func permutations(k int) [][]int {
	id := make([]int, k)
	for i := range id {
		id[i] = i
	}
	var out [][]int
	if k <= 3 {
		var rec func(cur []int, used []bool)
		rec = func(cur []int, used []bool) {
			if len(cur) == k {
				same := true
				for i, v := range cur {
					if v != i {
						same = false
					}
				}
				if !same {
					out = append(out, append([]int(nil), cur...))
				}
				return
			}
			for v := 0; v < k; v++ {
				if !used[v] {
					used[v] = true
					rec(append(cur, v), used)
					used[v] = false
				}
			}
		}
		rec(nil, make([]bool, k))
		return out
	}
	rev := make([]int, k)
	rot := make([]int, k)
	for i := range id {
		rev[i] = k - 1 - i
		rot[i] = (i + 1) % k
	}
	out = append(out, rev, rot)
	for i := 0; i+1 < k; i++ {
		p := append([]int(nil), id...)
		p[i], p[i+1] = p[i+1], p[i]
		out = append(out, p)
	}
	return out
}

package interp

// Hash-consed bit-vector / boolean term DAG with constant folding, an
// SMT-LIB2 printer and a concrete evaluator.

import (
	"fmt"
	"strings"
)

type Op uint8

const (
	OpConst Op = iota
	OpVar
	OpNot
	OpAnd
	OpOr
	OpEq
	OpIte
	OpAdd
	OpSub
	OpMul
	OpUDiv
	OpSDiv
	OpURem
	OpSRem
	OpBvAnd
	OpBvOr
	OpBvXor
	OpBvNot
	OpNeg
	OpShl
	OpLshr
	OpAshr
	OpUlt
	OpUle
	OpSlt
	OpSle
	OpZExt
	OpSExt
	OpExtract // val = lo; width = w (hi = lo+w-1)
)

var opNames = [...]string{
	OpNot: "not", OpAnd: "and", OpOr: "or", OpEq: "=", OpIte: "ite",
	OpAdd: "bvadd", OpSub: "bvsub", OpMul: "bvmul", OpUDiv: "bvudiv", OpSDiv: "bvsdiv",
	OpURem: "bvurem", OpSRem: "bvsrem", OpBvAnd: "bvand", OpBvOr: "bvor", OpBvXor: "bvxor",
	OpBvNot: "bvnot", OpNeg: "bvneg", OpShl: "bvshl", OpLshr: "bvlshr", OpAshr: "bvashr",
	OpUlt: "bvult", OpUle: "bvule", OpSlt: "bvslt", OpSle: "bvsle",
}

// Term is an immutable node. W == 0 means sort Bool, otherwise (_ BitVec W).
type Term struct {
	Op   Op
	W    int
	Args []*Term
	Val  uint64 // const value / extract low bit / var index
	Name string // var name
	ID   int
	P    *TermPool
}

type termKey struct {
	op      Op
	w       int
	a, b, c int
	val     uint64
	name    string
}

type TermPool struct {
	ex    *Explorer
	tab   map[termKey]*Term
	next  int
	Vars  []*Term // declaration order
	True  *Term
	False *Term
}

func NewTermPool() *TermPool {
	p := &TermPool{tab: make(map[termKey]*Term)}
	p.True = p.Bool(true)
	p.False = p.Bool(false)
	return p
}

func (p *TermPool) mk(op Op, w int, val uint64, name string, args ...*Term) *Term {
	k := termKey{op: op, w: w, val: val, name: name, a: -1, b: -1, c: -1}
	if len(args) > 0 {
		k.a = args[0].ID
	}
	if len(args) > 1 {
		k.b = args[1].ID
	}
	if len(args) > 2 {
		k.c = args[2].ID
	}
	if len(args) > 3 {
		panic("term arity")
	}
	if t, ok := p.tab[k]; ok {
		return t
	}
	t := &Term{Op: op, W: w, Args: args, Val: val, Name: name, ID: p.next, P: p}
	p.next++
	p.tab[k] = t
	return t
}

func mask(w int) uint64 {
	if w >= 64 {
		return ^uint64(0)
	}
	return (uint64(1) << uint(w)) - 1
}

func (p *TermPool) Const(w int, v uint64) *Term {
	if w == 0 {
		return p.Bool(v != 0)
	}
	return p.mk(OpConst, w, v&mask(w), "")
}

func (p *TermPool) Bool(b bool) *Term {
	v := uint64(0)
	if b {
		v = 1
	}
	return p.mk(OpConst, 0, v, "")
}

func (p *TermPool) Var(name string, w int) *Term {
	k := termKey{op: OpVar, w: w, name: name, a: -1, b: -1, c: -1}
	if t, ok := p.tab[k]; ok {
		return t
	}
	t := p.mk(OpVar, w, 0, name)
	p.Vars = append(p.Vars, t)
	return t
}

func (t *Term) IsConst() bool { return t.Op == OpConst }
func (t *Term) IsTrue() bool  { return t.Op == OpConst && t.W == 0 && t.Val == 1 }
func (t *Term) IsFalse() bool { return t.Op == OpConst && t.W == 0 && t.Val == 0 }

func signExt(v uint64, w int) int64 {
	if w >= 64 {
		return int64(v)
	}
	sh := uint(64 - w)
	return int64(v<<sh) >> sh
}

// evalOp computes op on constant args.
func evalOp(op Op, w int, val uint64, a []uint64, aw []int) uint64 {
	m := mask(w)
	switch op {
	case OpNot:
		return a[0] ^ 1
	case OpAnd:
		return a[0] & a[1]
	case OpOr:
		return a[0] | a[1]
	case OpEq:
		if a[0] == a[1] {
			return 1
		}
		return 0
	case OpIte:
		if a[0] != 0 {
			return a[1]
		}
		return a[2]
	case OpAdd:
		return (a[0] + a[1]) & m
	case OpSub:
		return (a[0] - a[1]) & m
	case OpMul:
		return (a[0] * a[1]) & m
	case OpUDiv:
		if a[1] == 0 {
			return m
		}
		return (a[0] / a[1]) & m
	case OpURem:
		if a[1] == 0 {
			return a[0]
		}
		return (a[0] % a[1]) & m
	case OpSDiv:
		x, y := signExt(a[0], w), signExt(a[1], w)
		if y == 0 {
			if x < 0 {
				return 1
			}
			return m
		}
		if y == -1 {
			return uint64(-x) & m
		}
		return uint64(x/y) & m
	case OpSRem:
		x, y := signExt(a[0], w), signExt(a[1], w)
		if y == 0 {
			return a[0]
		}
		if y == -1 {
			return 0
		}
		return uint64(x%y) & m
	case OpBvAnd:
		return a[0] & a[1]
	case OpBvOr:
		return a[0] | a[1]
	case OpBvXor:
		return a[0] ^ a[1]
	case OpBvNot:
		return ^a[0] & m
	case OpNeg:
		return (-a[0]) & m
	case OpShl:
		if a[1] >= uint64(w) {
			return 0
		}
		return (a[0] << a[1]) & m
	case OpLshr:
		if a[1] >= uint64(w) {
			return 0
		}
		return (a[0] >> a[1]) & m
	case OpAshr:
		x := signExt(a[0], w)
		if a[1] >= uint64(w) {
			if x < 0 {
				return m
			}
			return 0
		}
		return uint64(x>>a[1]) & m
	case OpUlt:
		return b2u(a[0] < a[1])
	case OpUle:
		return b2u(a[0] <= a[1])
	case OpSlt:
		return b2u(signExt(a[0], aw[0]) < signExt(a[1], aw[1]))
	case OpSle:
		return b2u(signExt(a[0], aw[0]) <= signExt(a[1], aw[1]))
	case OpZExt:
		return a[0]
	case OpSExt:
		return uint64(signExt(a[0], aw[0])) & m
	case OpExtract:
		return (a[0] >> val) & m
	}
	panic(fmt.Sprintf("evalOp: bad op %d", op))
}

func b2u(b bool) uint64 {
	if b {
		return 1
	}
	return 0
}

// App builds op(args) with folding and light simplification.
func (p *TermPool) App(op Op, w int, val uint64, args ...*Term) *Term {
	allConst := true
	for _, a := range args {
		if a.Op != OpConst {
			allConst = false
			break
		}
	}
	if allConst {
		var av [3]uint64
		var aw [3]int
		for i, a := range args {
			av[i] = a.Val
			aw[i] = a.W
		}
		return p.Const(w, evalOp(op, w, val, av[:len(args)], aw[:len(args)]))
	}
	switch op {
	case OpNot:
		a := args[0]
		if a.Op == OpNot {
			return a.Args[0]
		}
	case OpAnd:
		a, b := args[0], args[1]
		if a.IsFalse() || b.IsFalse() {
			return p.False
		}
		if a.IsTrue() {
			return b
		}
		if b.IsTrue() {
			return a
		}
		if a == b {
			return a
		}
	case OpOr:
		a, b := args[0], args[1]
		if a.IsTrue() || b.IsTrue() {
			return p.True
		}
		if a.IsFalse() {
			return b
		}
		if b.IsFalse() {
			return a
		}
		if a == b {
			return a
		}
	case OpEq:
		a, b := args[0], args[1]
		if a == b {
			return p.True
		}
		if a.W == 0 {
			// boolean equality with a constant
			if a.IsTrue() {
				return b
			}
			if b.IsTrue() {
				return a
			}
			if a.IsFalse() {
				return p.Not(b)
			}
			if b.IsFalse() {
				return p.Not(a)
			}
		}
		// (= (ite c k1 k2) k) with constants
		if b.Op == OpConst && a.Op == OpIte && a.Args[1].Op == OpConst && a.Args[2].Op == OpConst {
			t1 := a.Args[1].Val == b.Val
			t2 := a.Args[2].Val == b.Val
			switch {
			case t1 && t2:
				return p.True
			case t1 && !t2:
				return a.Args[0]
			case !t1 && t2:
				return p.Not(a.Args[0])
			default:
				return p.False
			}
		}
		if a.Op == OpConst && b.Op != OpConst {
			args = []*Term{b, a}
		}
		// zext(x) == const
		a, b = args[0], args[1]
		if b.Op == OpConst && a.Op == OpZExt {
			in := a.Args[0]
			if b.Val > mask(in.W) {
				return p.False
			}
			return p.App(OpEq, 0, 0, in, p.Const(in.W, b.Val))
		}
	case OpIte:
		c, a, b := args[0], args[1], args[2]
		if c.IsTrue() {
			return a
		}
		if c.IsFalse() {
			return b
		}
		if a == b {
			return a
		}
		if w == 0 {
			if a.IsTrue() && b.IsFalse() {
				return c
			}
			if a.IsFalse() && b.IsTrue() {
				return p.Not(c)
			}
		}
	case OpAdd, OpBvOr, OpBvXor:
		a, b := args[0], args[1]
		if a.Op == OpConst && a.Val == 0 {
			return b
		}
		if b.Op == OpConst && b.Val == 0 {
			return a
		}
	case OpSub, OpShl, OpLshr, OpAshr:
		b := args[1]
		if b.Op == OpConst && b.Val == 0 {
			return args[0]
		}
	case OpBvAnd:
		a, b := args[0], args[1]
		if a.Op == OpConst && a.Val == 0 || b.Op == OpConst && b.Val == 0 {
			return p.Const(w, 0)
		}
		if a.Op == OpConst && a.Val == mask(w) {
			return b
		}
		if b.Op == OpConst && b.Val == mask(w) {
			return a
		}
	case OpMul:
		a, b := args[0], args[1]
		if a.Op == OpConst && a.Val == 1 {
			return b
		}
		if b.Op == OpConst && b.Val == 1 {
			return a
		}
		if a.Op == OpConst && a.Val == 0 || b.Op == OpConst && b.Val == 0 {
			return p.Const(w, 0)
		}
	case OpZExt, OpSExt:
		if args[0].W == w {
			return args[0]
		}
		if op == OpZExt && args[0].Op == OpZExt {
			return p.mk(OpZExt, w, 0, "", args[0].Args[0])
		}
	case OpExtract:
		a := args[0]
		if val == 0 && a.W == w {
			return a
		}
		if (a.Op == OpZExt || a.Op == OpSExt) && val == 0 {
			in := a.Args[0]
			if in.W == w {
				return in
			}
			if in.W > w {
				return p.App(OpExtract, w, 0, in)
			}
			return p.App(a.Op, w, 0, in)
		}
	case OpUlt:
		a, b := args[0], args[1]
		if a == b {
			return p.False
		}
		if b.Op == OpConst && b.Val == 0 {
			return p.False
		}
	case OpUle:
		a, b := args[0], args[1]
		if a == b {
			return p.True
		}
		if a.Op == OpConst && a.Val == 0 {
			return p.True
		}
	case OpSlt:
		if args[0] == args[1] {
			return p.False
		}
	case OpSle:
		if args[0] == args[1] {
			return p.True
		}
	}
	return p.mk(op, w, val, "", args...)
}

func (p *TermPool) Not(a *Term) *Term    { return p.App(OpNot, 0, 0, a) }
func (p *TermPool) And(a, b *Term) *Term { return p.App(OpAnd, 0, 0, a, b) }
func (p *TermPool) Or(a, b *Term) *Term  { return p.App(OpOr, 0, 0, a, b) }
func (p *TermPool) Eq(a, b *Term) *Term {
	if a.W != b.W {
		panic(fmt.Sprintf("Eq: width mismatch %d vs %d", a.W, b.W))
	}
	return p.App(OpEq, 0, 0, a, b)
}
func (p *TermPool) Ite(c, a, b *Term) *Term {
	if a.W != b.W {
		panic(fmt.Sprintf("Ite: width mismatch %d vs %d", a.W, b.W))
	}
	return p.App(OpIte, a.W, 0, c, a, b)
}
func (p *TermPool) Bin(op Op, a, b *Term) *Term {
	if a.W != b.W {
		panic(fmt.Sprintf("Bin %s: width mismatch %d vs %d", opNames[op], a.W, b.W))
	}
	w := a.W
	switch op {
	case OpUlt, OpUle, OpSlt, OpSle:
		w = 0
	}
	return p.App(op, w, 0, a, b)
}
func (p *TermPool) ZExt(a *Term, w int) *Term { return p.App(OpZExt, w, 0, a) }
func (p *TermPool) SExt(a *Term, w int) *Term { return p.App(OpSExt, w, 0, a) }
func (p *TermPool) Extract(a *Term, lo, w int) *Term {
	return p.App(OpExtract, w, uint64(lo), a)
}

// Resize converts a to width w, extending by signedness or truncating.
func (p *TermPool) Resize(a *Term, w int, signed bool) *Term {
	switch {
	case a.W == w:
		return a
	case a.W > w:
		return p.Extract(a, 0, w)
	case signed:
		return p.SExt(a, w)
	default:
		return p.ZExt(a, w)
	}
}

// ---------------------------------------------------------------------
// SMT-LIB printing

func sortName(w int) string {
	if w == 0 {
		return "Bool"
	}
	return fmt.Sprintf("(_ BitVec %d)", w)
}

func constSMT(t *Term) string {
	if t.W == 0 {
		if t.Val != 0 {
			return "true"
		}
		return "false"
	}
	if t.W%4 == 0 {
		return fmt.Sprintf("#x%0*x", t.W/4, t.Val)
	}
	return fmt.Sprintf("#b%0*b", t.W, t.Val)
}

func refName(t *Term) string {
	switch t.Op {
	case OpConst:
		return constSMT(t)
	case OpVar:
		return t.Name
	}
	return fmt.Sprintf("t%d", t.ID)
}

// bodySMT prints the node with its arguments referenced by name.
func bodySMT(t *Term) string {
	var sb strings.Builder
	switch t.Op {
	case OpConst, OpVar:
		return refName(t)
	case OpZExt:
		fmt.Fprintf(&sb, "((_ zero_extend %d) %s)", t.W-t.Args[0].W, refName(t.Args[0]))
	case OpSExt:
		fmt.Fprintf(&sb, "((_ sign_extend %d) %s)", t.W-t.Args[0].W, refName(t.Args[0]))
	case OpExtract:
		fmt.Fprintf(&sb, "((_ extract %d %d) %s)", int(t.Val)+t.W-1, t.Val, refName(t.Args[0]))
	default:
		sb.WriteByte('(')
		sb.WriteString(opNames[t.Op])
		for _, a := range t.Args {
			sb.WriteByte(' ')
			sb.WriteString(refName(a))
		}
		sb.WriteByte(')')
	}
	return sb.String()
}

// Eval evaluates t under a model (var name -> value). Missing vars are 0.
func (t *Term) Eval(model map[string]uint64, memo map[int]uint64) uint64 {
	switch t.Op {
	case OpConst:
		return t.Val
	case OpVar:
		return model[t.Name] & maskB(t.W)
	}
	if v, ok := memo[t.ID]; ok {
		return v
	}
	var av [3]uint64
	var aw [3]int
	if t.Op == OpIte {
		c := t.Args[0].Eval(model, memo)
		var r uint64
		if c != 0 {
			r = t.Args[1].Eval(model, memo)
		} else {
			r = t.Args[2].Eval(model, memo)
		}
		memo[t.ID] = r
		return r
	}
	for i, a := range t.Args {
		av[i] = a.Eval(model, memo)
		aw[i] = a.W
	}
	r := evalOp(t.Op, t.W, t.Val, av[:len(t.Args)], aw[:len(t.Args)])
	memo[t.ID] = r
	return r
}

func maskB(w int) uint64 {
	if w == 0 {
		return 1
	}
	return mask(w)
}

// String renders a term fully (for samples / debugging); shared nodes repeat.
func (t *Term) String() string {
	var sb strings.Builder
	t.write(&sb, 0)
	return sb.String()
}

func (t *Term) write(sb *strings.Builder, depth int) {
	if depth > 12 {
		sb.WriteString("…")
		return
	}
	switch t.Op {
	case OpConst, OpVar:
		sb.WriteString(refName(t))
		return
	case OpZExt:
		fmt.Fprintf(sb, "((_ zero_extend %d) ", t.W-t.Args[0].W)
	case OpSExt:
		fmt.Fprintf(sb, "((_ sign_extend %d) ", t.W-t.Args[0].W)
	case OpExtract:
		fmt.Fprintf(sb, "((_ extract %d %d) ", int(t.Val)+t.W-1, t.Val)
	default:
		sb.WriteByte('(')
		sb.WriteString(opNames[t.Op])
		sb.WriteByte(' ')
	}
	for i, a := range t.Args {
		if i > 0 {
			sb.WriteByte(' ')
		}
		a.write(sb, depth+1)
	}
	sb.WriteByte(')')
}

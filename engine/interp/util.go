package interp

import (
	"fmt"
	"go/types"
)

// mustDeref returns the element type of a pointer type (replacement for
// x/tools/internal/typeparams.MustDeref).
func mustDeref(t types.Type) types.Type {
	if p, ok := t.Underlying().(*types.Pointer); ok {
		return p.Elem()
	}
	panic(fmt.Sprintf("mustDeref: %s is not a pointer", t))
}

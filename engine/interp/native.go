package interp

// Native handles for two library packages that the engine cannot interpret
// (they rest on reflection and large initialised tables) and that the code
// under test only uses on constant patterns and concrete text: regexp and
// text/template. A compiled pattern or a parsed template is an opaque object
// of the target program; the handful of methods pigeon's builder calls on it
// run natively on concrete arguments. A method outside this list ends the path
// as unsupported (inconclusive), never as a pass.

import (
	"bytes"
	"go/types"
	"regexp"
	"text/template"
)

type nativeObj struct{ v any }

func newNative(v any) value {
	var cell value = nativeObj{v}
	return &cell
}

func nativeOf(fr *frame, v value, what string) any {
	p, ok := v.(*value)
	if !ok || p == nil {
		unsupported("%s: nil or foreign receiver", what)
	}
	n, ok := (*p).(nativeObj)
	if !ok {
		unsupported("%s: receiver was not created by the engine's native intrinsic", what)
	}
	return n.v
}

func nativeErrValue(fr *frame, err error) value {
	if err == nil {
		return iface{}
	}
	return mkError(fr, err.Error())
}

// templateData turns a struct of the target program into a map keyed by field
// name (text/template resolves .Field on a map the same way).
func templateData(fr *frame, v value) any {
	x, ok := v.(iface)
	if !ok || x.t == nil {
		return nil
	}
	if st, ok := x.t.Underlying().(*types.Struct); ok {
		out := map[string]any{}
		fields := x.v.(structure)
		for k := 0; k < st.NumFields(); k++ {
			out[st.Field(k).Name()] = toNative(fr, wrapField(st.Field(k).Type(), fields[k]))
		}
		return out
	}
	return toNative(fr, v)
}

func wrapField(t types.Type, v value) value {
	if _, isIface := t.Underlying().(*types.Interface); isIface {
		return v
	}
	if _, basic := t.Underlying().(*types.Basic); basic {
		return v
	}
	return iface{t, v}
}

func init() {
	native := map[string]externalFn{
		"regexp.MustCompile": func(fr *frame, args []value) (value, bool) {
			re, err := regexp.Compile(concreteString(args[0]))
			if err != nil {
				panic(targetPanic{iface{types.Typ[types.String], "regexp: Compile(" + concreteString(args[0]) + "): " + err.Error()}})
			}
			return newNative(re), true
		},
		"regexp.Compile": func(fr *frame, args []value) (value, bool) {
			re, err := regexp.Compile(concreteString(args[0]))
			if err != nil {
				return tuple{(*value)(nil), nativeErrValue(fr, err)}, true
			}
			return tuple{newNative(re), iface{}}, true
		},
		"(*regexp.Regexp).MatchString": func(fr *frame, args []value) (value, bool) {
			re := nativeOf(fr, args[0], "regexp").(*regexp.Regexp)
			return re.MatchString(concreteString(args[1])), true
		},
		"(*regexp.Regexp).ReplaceAllString": func(fr *frame, args []value) (value, bool) {
			re := nativeOf(fr, args[0], "regexp").(*regexp.Regexp)
			return re.ReplaceAllString(concreteString(args[1]), concreteString(args[2])), true
		},
		"(*regexp.Regexp).ReplaceAllLiteralString": func(fr *frame, args []value) (value, bool) {
			re := nativeOf(fr, args[0], "regexp").(*regexp.Regexp)
			return re.ReplaceAllLiteralString(concreteString(args[1]), concreteString(args[2])), true
		},
		"(*regexp.Regexp).FindStringIndex": func(fr *frame, args []value) (value, bool) {
			re := nativeOf(fr, args[0], "regexp").(*regexp.Regexp)
			loc := re.FindStringIndex(concreteString(args[1]))
			if loc == nil {
				return []value(nil), true
			}
			return []value{loc[0], loc[1]}, true
		},
		"(*regexp.Regexp).String": func(fr *frame, args []value) (value, bool) {
			return nativeOf(fr, args[0], "regexp").(*regexp.Regexp).String(), true
		},
		"text/template.New": func(fr *frame, args []value) (value, bool) {
			return newNative(template.New(concreteString(args[0]))), true
		},
		"(*text/template.Template).Parse": func(fr *frame, args []value) (value, bool) {
			t := nativeOf(fr, args[0], "template").(*template.Template)
			t2, err := t.Parse(concreteString(args[1]))
			if err != nil {
				return tuple{(*value)(nil), nativeErrValue(fr, err)}, true
			}
			if t2 == t {
				return tuple{args[0], iface{}}, true
			}
			return tuple{newNative(t2), iface{}}, true
		},
		"text/template.Must": func(fr *frame, args []value) (value, bool) {
			if e, ok := args[1].(iface); ok && e.t != nil {
				panic(targetPanic{args[1]})
			}
			return args[0], true
		},
		"(*text/template.Template).Execute": func(fr *frame, args []value) (value, bool) {
			t := nativeOf(fr, args[0], "template").(*template.Template)
			var buf bytes.Buffer
			if err := t.Execute(&buf, templateData(fr, args[2])); err != nil {
				return nativeErrValue(fr, err), true
			}
			res := fprint(fr, args[1], buf.String())
			if tp, ok := res.(tuple); ok && len(tp) == 2 {
				return tp[1], true
			}
			return iface{}, true
		},
	}
	// A virtual standard input: the harness hands the bytes over with symSetStdin; reading from an
	// *os.File (os.Stdin is the only one the code under test can hold: os.Open is not modelled) consumes them.
	native["(*os.File).Read"] = func(fr *frame, args []value) (value, bool) {
		buf, ok := args[1].([]value)
		if !ok {
			unsupported("(*os.File).Read: buffer")
		}
		i := fr.i
		if len(buf) == 0 {
			return tuple{0, iface{}}, true
		}
		if i.stdinOff >= len(i.stdin) {
			return tuple{0, ioEOF(fr)}, true
		}
		n := copy(buf, i.stdin[i.stdinOff:])
		i.stdinOff += n
		return tuple{n, iface{}}, true
	}
	// writes to an *os.File (the code under test can only hold os.Stdout / os.Stderr) are discarded
	native["(*os.File).Write"] = func(fr *frame, args []value) (value, bool) {
		buf, _ := args[1].([]value)
		return tuple{len(buf), iface{}}, true
	}
	native["(*os.File).Close"] = func(fr *frame, args []value) (value, bool) {
		return iface{}, true
	}
	for k, v := range native {
		externals[k] = v
	}
}

// ioEOF: the value of the target program's io.EOF.
func ioEOF(fr *frame) value {
	pkg := fr.i.prog.ImportedPackage("io")
	if pkg == nil {
		unsupported("io.EOF: package io is not part of the program")
	}
	g := pkg.Var("EOF")
	if g == nil {
		unsupported("io.EOF not found")
	}
	return *fr.i.globals[g]
}

package interp

// Equality producing terms, symbolic-index memory access, merging.

import (
	"fmt"
	"go/types"

	"golang.org/x/tools/go/ssa"
)

// eqv returns x == y (Go semantics for comparable values) as a value: a Go
// bool when decided concretely, otherwise a sym of kind Bool.
func eqv(t types.Type, x, y value) value {
	switch x := x.(type) {
	case sym:
		return symBinopEq(x, y)
	case symstr:
		return strEq(x, y)
	case string:
		if _, ok := y.(symstr); ok {
			return strEq(x, y)
		}
		return x == y.(string)
	case bool, int, int8, int16, int32, int64, uint, uint8, uint16, uint32, uint64, uintptr:
		if _, ok := y.(sym); ok {
			return symBinopEq(x, y)
		}
		return scalarBits(x) == scalarBits(y)
	case float32:
		return x == y.(float32)
	case float64:
		return x == y.(float64)
	case complex64:
		return x == y.(complex64)
	case complex128:
		return x == y.(complex128)
	case *value:
		if sp, ok := y.(*symptr); ok {
			return x == sp.concretePtr()
		}
		return x == y.(*value)
	case *symptr:
		return eqv(t, x.concretePtr(), y)
	case structure:
		ys := y.(structure)
		var acc value = true
		var st *types.Struct
		if t != nil {
			st, _ = t.Underlying().(*types.Struct)
		}
		for i := range x {
			if st != nil && st.Field(i).Name() == "_" {
				continue
			}
			var ft types.Type
			if st != nil {
				ft = st.Field(i).Type()
			}
			acc = andv(acc, eqv(ft, x[i], ys[i]))
			if b, ok := acc.(bool); ok && !b {
				return false
			}
		}
		return acc
	case array:
		ya := y.(array)
		var acc value = true
		var et types.Type
		if t != nil {
			if at, ok := t.Underlying().(*types.Array); ok {
				et = at.Elem()
			}
		}
		for i := range x {
			acc = andv(acc, eqv(et, x[i], ya[i]))
			if b, ok := acc.(bool); ok && !b {
				return false
			}
		}
		return acc
	case iface:
		yi := y.(iface)
		if !sameType(x.t, yi.t) {
			return false
		}
		if x.t == nil {
			return true
		}
		switch x.t.Underlying().(type) {
		case *types.Slice, *types.Map, *types.Signature:
			panic(targetPanic{iface{types.Typ[types.String], "runtime error: comparing uncomparable type " + x.t.String()}})
		}
		return eqv(x.t, x.v, yi.v)
	}
	panic(fmt.Sprintf("comparing uncomparable type %s (%T)", t, x))
}

func symBinopEq(x, y value) value {
	p := poolOf(x, y)
	tx, _ := lift(p, x)
	ty, _ := lift(p, y)
	return norm(p.Eq(tx, ty), types.Bool)
}

// eqnilv is eqnil lifted to values.
func eqnilv(t types.Type, x, y value) value {
	switch t.Underlying().(type) {
	case *types.Map, *types.Signature, *types.Slice:
		return eqnil(t, x, y)
	}
	return eqv(t, x, y)
}

// mergeIte returns ite(c, a, b) for values of identical shape.
func mergeIte(p *TermPool, c *Term, a, b value) value {
	if c.IsTrue() {
		return a
	}
	if c.IsFalse() {
		return b
	}
	switch av := a.(type) {
	case structure:
		bv := b.(structure)
		out := make(structure, len(av))
		for i := range av {
			out[i] = mergeIte(p, c, av[i], bv[i])
		}
		return out
	case array:
		bv := b.(array)
		out := make(array, len(av))
		for i := range av {
			out[i] = mergeIte(p, c, av[i], bv[i])
		}
		return out
	case sym, bool, int, int8, int16, int32, int64, uint, uint8, uint16, uint32, uint64, uintptr:
		ta, ka := lift(p, a)
		tb, _ := lift(p, b)
		return norm(p.Ite(c, ta, tb), ka)
	case string:
		if bs, ok := b.(string); ok && bs == av {
			return a
		}
	case *value:
		if bp, ok := b.(*value); ok && bp == av {
			return a
		}
	case iface:
		if bi, ok := b.(iface); ok && sameType(av.t, bi.t) {
			if av.t == nil {
				return a
			}
			return iface{av.t, mergeIte(p, c, av.v, bi.v)}
		}
	case []value:
		if bs, ok := b.([]value); ok && len(av) == len(bs) && (len(av) == 0 || &av[0] == &bs[0]) {
			return a
		}
	case *ssa.Function:
		if bf, ok := b.(*ssa.Function); ok && bf == av {
			return a
		}
	}
	// not mergeable: fork instead
	if p.ex.Decide(c) {
		return a
	}
	return b
}

// symptr is the address of cells[idx] for a symbolic idx already known to be
// in bounds.
type symptr struct {
	cells []value
	idx   *Term // 64-bit
	p     *TermPool
}

const maxSymIndexCells = 1024

// symIndexAddr returns &cells[idx] for symbolic idx: a *symptr when the
// element type is mergeable, else a concrete *value after concretisation.
// The bounds check is a decision: the out-of-range side panics like Go does.
func symIndexAddr(cells []value, idx sym) value {
	p := idx.t.P
	i64 := p.Resize(idx.t, 64, kindSigned(idx.k))
	inb := p.Bin(OpUlt, i64, p.Const(64, uint64(len(cells))))
	if !p.ex.Decide(inb) {
		panic(fmt.Sprintf("runtime error: index out of range [symbolic] with length %d", len(cells)))
	}
	if len(cells) == 1 {
		return &cells[0]
	}
	if len(cells) <= maxSymIndexCells && mergeable(cells[0]) {
		return &symptr{cells: cells, idx: i64, p: p}
	}
	k := p.ex.Concretize(i64)
	return &cells[k]
}

func mergeable(v value) bool {
	switch x := v.(type) {
	case sym, bool, int, int8, int16, int32, int64, uint, uint8, uint16, uint32, uint64, uintptr:
		return true
	case structure:
		for _, e := range x {
			if !mergeable(e) {
				return false
			}
		}
		return true
	case array:
		for _, e := range x {
			if !mergeable(e) {
				return false
			}
		}
		return true
	}
	return false
}

func sameConcrete(a, b value) bool {
	switch av := a.(type) {
	case bool, int, int8, int16, int32, int64, uint, uint8, uint16, uint32, uint64, uintptr:
		if _, ok := kindOf(b); ok {
			return scalarBits(av) == scalarBits(b)
		}
	}
	return false
}

func (sp *symptr) load(T types.Type) value {
	p := sp.p
	n := len(sp.cells)
	// runs of identical concrete scalars collapse to one range test
	res := load(T, &sp.cells[n-1])
	hi := n - 2
	for hi >= 0 {
		lo := hi
		for lo > 0 && sameConcrete(sp.cells[lo-1], sp.cells[hi]) {
			lo--
		}
		v := load(T, &sp.cells[hi])
		var c *Term
		if lo == hi {
			c = p.Eq(sp.idx, p.Const(64, uint64(hi)))
		} else {
			c = p.Bin(OpUle, sp.idx, p.Const(64, uint64(hi)))
			if lo > 0 {
				// earlier runs are tested later in the chain (outer), so the
				// upper bound alone is enough: chain is built from the end.
			}
		}
		res = mergeIte(p, c, v, res)
		hi = lo - 1
	}
	return res
}

func (sp *symptr) store(T types.Type, v value) {
	p := sp.p
	for i := range sp.cells {
		c := p.Eq(sp.idx, p.Const(64, uint64(i)))
		old := load(T, &sp.cells[i])
		store(T, &sp.cells[i], mergeIte(p, c, v, old))
	}
}

func (sp *symptr) concretePtr() *value {
	k := sp.p.ex.Concretize(sp.idx)
	return &sp.cells[k]
}

// storeAt implements the Store instruction.
func storeAt(fr *frame, T types.Type, addr value, v value) {
	switch a := addr.(type) {
	case *symptr:
		a.store(T, v)
	case *value:
		if a == nil {
			panic("runtime error: invalid memory address or nil pointer dereference")
		}
		if fr.i.monitor != nil {
			fr.i.monitor.onStore(fr, a)
		}
		store(T, a, v)
	default:
		panic(fmt.Sprintf("store: bad address %T", addr))
	}
}

// appendZeroFill is append() that leaves spare capacity holding element zero
// values (the target may re-slice into it and read, as pigeon's pushV does).
func appendZeroFill(fn *ssa.Builtin, dst []value, add []value) []value {
	n := len(dst) + len(add)
	if n <= cap(dst) {
		return append(dst, add...)
	}
	newcap := 2 * cap(dst)
	if newcap < n {
		newcap = n
	}
	if newcap < 4 {
		newcap = 4
	}
	out := make([]value, n, newcap)
	copy(out, dst)
	copy(out[len(dst):], add)
	var et types.Type
	if sig, ok := fn.Type().(*types.Signature); ok && sig.Params().Len() > 0 {
		if st, ok := sig.Params().At(0).Type().Underlying().(*types.Slice); ok {
			et = st.Elem()
		}
	}
	if et != nil {
		full := out[:newcap]
		for i := n; i < newcap; i++ {
			full[i] = zero(et)
		}
	}
	return out
}

package interp

// omap is an insertion-ordered hash map used for every target map, so that
// re-execution of a decision prefix is exactly reproducible. Keys that contain
// symbolic parts are compared with (forking) symbolic equality by linear scan.

import (
	"go/types"
)

type oentry struct {
	key   value
	val   value
	alive bool
}

type omap struct {
	keyType types.Type
	entries []oentry
	index   map[int][]int // hash -> indices into entries
	n       int
	symKeys bool // some live key contains symbolic parts
}

func newOmap(kt types.Type) *omap {
	return &omap{keyType: kt, index: make(map[int][]int)}
}

func hasSymbolic(v value) bool {
	switch x := v.(type) {
	case sym, symstr:
		return true
	case iface:
		return x.t != nil && hasSymbolic(x.v)
	case structure:
		for _, e := range x {
			if hasSymbolic(e) {
				return true
			}
		}
	case array:
		for _, e := range x {
			if hasSymbolic(e) {
				return true
			}
		}
	}
	return false
}

func (m *omap) find(k value) int {
	if m == nil {
		return -1
	}
	if m.symKeys || hasSymbolic(k) {
		for i := range m.entries {
			e := &m.entries[i]
			if e.alive && equals(m.keyType, k, e.key) {
				return i
			}
		}
		return -1
	}
	h := hash(m.keyType, m.keyType, k)
	for _, i := range m.index[h] {
		e := &m.entries[i]
		if e.alive && equals(m.keyType, k, e.key) {
			return i
		}
	}
	return -1
}

func (m *omap) lookup(k value) (value, bool) {
	if i := m.find(k); i >= 0 {
		return m.entries[i].val, true
	}
	return nil, false
}

func (m *omap) insert(k, v value) {
	if i := m.find(k); i >= 0 {
		m.entries[i].val = v
		return
	}
	i := len(m.entries)
	m.entries = append(m.entries, oentry{key: k, val: v, alive: true})
	m.n++
	if hasSymbolic(k) {
		m.symKeys = true
		return
	}
	h := hash(m.keyType, m.keyType, k)
	m.index[h] = append(m.index[h], i)
}

func (m *omap) delete(k value) {
	if m == nil {
		return
	}
	i := m.find(k)
	if i < 0 {
		return
	}
	e := &m.entries[i]
	e.alive = false
	m.n--
	if !hasSymbolic(e.key) {
		h := hash(m.keyType, m.keyType, e.key)
		lst := m.index[h]
		for j, x := range lst {
			if x == i {
				m.index[h] = append(lst[:j:j], lst[j+1:]...)
				break
			}
		}
	}
	e.key, e.val = nil, nil
	if m.n == 0 {
		m.entries = m.entries[:0]
		m.symKeys = false
	}
}

func (m *omap) len() int {
	if m == nil {
		return 0
	}
	return m.n
}

// omapIter iterates in insertion order over the entries present when the
// iteration started or added since (Go permits either for additions).
type omapIter struct {
	m     *omap
	i     int
	order []int // explicit order (order-symbolic mode); nil = insertion order
}

func (it *omapIter) next() tuple {
	if it.m == nil {
		return tuple{false, nil, nil}
	}
	if it.order != nil {
		for it.i < len(it.order) {
			idx := it.order[it.i]
			it.i++
			if idx < len(it.m.entries) && it.m.entries[idx].alive {
				e := it.m.entries[idx]
				return tuple{true, e.key, e.val}
			}
		}
		return tuple{false, nil, nil}
	}
	for it.i < len(it.m.entries) {
		e := it.m.entries[it.i]
		it.i++
		if e.alive {
			return tuple{true, e.key, e.val}
		}
	}
	return tuple{false, nil, nil}
}

package interp

// One long-lived SMT solver process per worker, spoken to over a pipe.

import (
	"bufio"
	"fmt"
	"io"
	"os"
	"os/exec"
	"regexp"
	"strconv"
	"strings"
	"time"
)

type SatResult int

const (
	Unsat SatResult = iota
	Sat
	Unknown
)

func (r SatResult) String() string {
	return [...]string{"unsat", "sat", "unknown"}[r]
}

type Solver struct {
	argv     []string
	cmd      *exec.Cmd
	in       *bufio.Writer
	out      *bufio.Reader
	defined  map[int]bool
	declared map[string]bool
	asserted []*Term
	pending  strings.Builder

	Queries  int
	Time     time.Duration
	Errors   []string
	Unknowns int
	Restarts int
	Log      io.Writer
	hardTO   time.Duration
}

// SolverArgv returns the command line for a named back end with a per-query
// soft timeout in milliseconds.
func SolverArgv(name string, timeoutMs int) []string {
	switch name {
	case "cvc5":
		return []string{"cvc5", "--incremental", "--lang", "smt2", fmt.Sprintf("--tlimit-per=%d", timeoutMs)}
	case "z3-new":
		return []string{"z3-new", "-in", "-smt2", fmt.Sprintf("-t:%d", timeoutMs)}
	default:
		return []string{"z3", "-in", "-smt2", fmt.Sprintf("-t:%d", timeoutMs)}
	}
}

func NewSolver(argv []string, timeoutMs int) (*Solver, error) {
	s := &Solver{argv: argv, hardTO: time.Duration(timeoutMs)*time.Millisecond + 10*time.Second}
	if err := s.start(); err != nil {
		return nil, err
	}
	return s, nil
}

func (s *Solver) start() error {
	s.cmd = exec.Command(s.argv[0], s.argv[1:]...)
	w, err := s.cmd.StdinPipe()
	if err != nil {
		return err
	}
	r, err := s.cmd.StdoutPipe()
	if err != nil {
		return err
	}
	s.cmd.Stderr = os.Stderr
	if err := s.cmd.Start(); err != nil {
		return err
	}
	s.in = bufio.NewWriterSize(w, 1<<16)
	s.out = bufio.NewReaderSize(r, 1<<16)
	s.defined = make(map[int]bool)
	s.declared = make(map[string]bool)
	s.pending.Reset()
	s.pending.WriteString("(set-option :print-success false)\n(set-logic QF_BV)\n")
	return nil
}

func (s *Solver) Close() {
	if s.cmd != nil && s.cmd.Process != nil {
		s.in.WriteString("(exit)\n")
		s.in.Flush()
		s.cmd.Process.Kill()
		s.cmd.Wait()
		s.cmd = nil
	}
}

func (s *Solver) restart() {
	s.Restarts++
	if s.cmd != nil && s.cmd.Process != nil {
		s.cmd.Process.Kill()
		s.cmd.Wait()
	}
	if err := s.start(); err != nil {
		panic(engineError{"solver restart: " + err.Error()})
	}
	old := s.asserted
	s.asserted = nil
	for _, t := range old {
		s.Assert(t)
	}
}

// Reset starts a fresh context (new path).
func (s *Solver) Reset() {
	s.pending.Reset()
	s.pending.WriteString("(reset)\n(set-option :print-success false)\n(set-logic QF_BV)\n")
	s.defined = make(map[int]bool)
	s.declared = make(map[string]bool)
	s.asserted = s.asserted[:0]
}

// ensure emits declarations/definitions needed by t into the pending buffer.
func (s *Solver) ensure(t *Term) {
	switch t.Op {
	case OpConst:
		return
	case OpVar:
		if !s.declared[t.Name] {
			s.declared[t.Name] = true
			fmt.Fprintf(&s.pending, "(declare-const %s %s)\n", t.Name, sortName(t.W))
		}
		return
	}
	if s.defined[t.ID] {
		return
	}
	for _, a := range t.Args {
		s.ensure(a)
	}
	s.defined[t.ID] = true
	fmt.Fprintf(&s.pending, "(define-fun t%d () %s %s)\n", t.ID, sortName(t.W), bodySMT(t))
}

func (s *Solver) Assert(t *Term) {
	s.asserted = append(s.asserted, t)
	s.ensure(t)
	fmt.Fprintf(&s.pending, "(assert %s)\n", refName(t))
}

var valueRe = regexp.MustCompile(`\(\s*([A-Za-z_][A-Za-z0-9_!.]*)\s+(#x[0-9a-fA-F]+|#b[01]+|true|false)\s*\)`)

// roundtrip sends pending + cmds and returns the output lines.
func (s *Solver) roundtrip(cmds string) (lines []string, ok bool) {
	s.pending.WriteString(cmds)
	s.pending.WriteString("(echo \"#done\")\n")
	text := s.pending.String()
	s.pending.Reset()
	if s.Log != nil {
		io.WriteString(s.Log, text)
	}
	start := time.Now()
	defer func() { s.Time += time.Since(start) }()
	proc := s.cmd.Process
	timedOut := false
	timer := time.AfterFunc(s.hardTO, func() {
		timedOut = true
		proc.Kill()
	})
	defer timer.Stop()
	fail := func(msg string) ([]string, bool) {
		if timedOut {
			msg = "solver hard timeout"
		}
		s.Errors = append(s.Errors, msg)
		return nil, false
	}
	if _, err := s.in.WriteString(text); err != nil {
		return fail("solver io: " + err.Error())
	}
	if err := s.in.Flush(); err != nil {
		return fail("solver io: " + err.Error())
	}
	for {
		line, err := s.out.ReadString('\n')
		if err != nil {
			return fail("solver io: " + err.Error())
		}
		line = strings.TrimSpace(line)
		if strings.Contains(line, "#done") {
			break
		}
		if line != "" {
			lines = append(lines, line)
		}
	}
	return lines, true
}

// Check decides satisfiability of the asserted set plus extra (may be nil).
// If wantModel and the result is sat, the values of vars are returned.
func (s *Solver) Check(extra *Term, wantModel bool, vars []*Term) (SatResult, map[string]uint64) {
	s.Queries++
	var sb strings.Builder
	if extra != nil {
		s.ensure(extra)
		fmt.Fprintf(&sb, "(push 1)\n(assert %s)\n", refName(extra))
	}
	for _, v := range vars {
		s.ensure(v)
	}
	sb.WriteString("(check-sat)\n")
	wantModel = wantModel && len(vars) > 0
	if wantModel {
		sb.WriteString("(get-value (")
		for _, v := range vars {
			sb.WriteString(refName(v))
			sb.WriteByte(' ')
		}
		sb.WriteString("))\n")
	}
	lines, ok := s.roundtrip(sb.String())
	if !ok {
		s.Unknowns++
		s.restart()
		return Unknown, nil
	}
	result := Unknown
	if len(lines) > 0 {
		switch lines[0] {
		case "sat":
			result = Sat
		case "unsat":
			result = Unsat
		}
	}
	// any (error ...) line is inconclusive, except the expected complaint of
	// get-value after an unsat answer
	for k, l := range lines {
		if strings.HasPrefix(l, "(error") {
			if k >= 1 && result == Unsat && wantModel {
				continue
			}
			s.Errors = append(s.Errors, l)
			result = Unknown
		}
	}
	var model map[string]uint64
	if result == Sat && wantModel {
		model = make(map[string]uint64)
		for _, m := range valueRe.FindAllStringSubmatch(strings.Join(lines[1:], " "), -1) {
			model[m[1]] = parseSMTValue(m[2])
		}
	}
	if extra != nil {
		s.pending.WriteString("(pop 1)\n")
	}
	if result == Unknown {
		s.Unknowns++
	}
	return result, model
}

func parseSMTValue(v string) uint64 {
	switch {
	case v == "true":
		return 1
	case v == "false":
		return 0
	case strings.HasPrefix(v, "#x"):
		n, _ := strconv.ParseUint(v[2:], 16, 64)
		return n
	case strings.HasPrefix(v, "#b"):
		n, _ := strconv.ParseUint(v[2:], 2, 64)
		return n
	}
	return 0
}

package interp

// Symbolic scalar values and operations on them.

import (
	"fmt"
	"go/token"
	"go/types"
)

// sym is a symbolic scalar of Go basic kind k (Bool or an integer kind).
type sym struct {
	t *Term
	k types.BasicKind
}

// symstr is a string of concrete length whose bytes may be symbolic
// (each element is uint8 or sym of kind Uint8).
type symstr []value

type engineError struct{ msg string }

func (e engineError) Error() string { return e.msg }

// unsupported aborts the current path as INCONCLUSIVE.
func unsupported(format string, a ...any) {
	panic(engineError{"unsupported: " + fmt.Sprintf(format, a...)})
}

func kindWidth(k types.BasicKind) int {
	switch k {
	case types.Bool:
		return 0
	case types.Int8, types.Uint8:
		return 8
	case types.Int16, types.Uint16:
		return 16
	case types.Int32, types.Uint32:
		return 32
	case types.Int, types.Uint, types.Int64, types.Uint64, types.Uintptr:
		return 64
	}
	panic(fmt.Sprintf("kindWidth: %v", k))
}

func kindSigned(k types.BasicKind) bool {
	switch k {
	case types.Int, types.Int8, types.Int16, types.Int32, types.Int64:
		return true
	}
	return false
}

func isSym(v value) bool {
	_, ok := v.(sym)
	return ok
}

// kindOf returns the basic kind of a concrete scalar value.
func kindOf(v value) (types.BasicKind, bool) {
	switch v.(type) {
	case bool:
		return types.Bool, true
	case int:
		return types.Int, true
	case int8:
		return types.Int8, true
	case int16:
		return types.Int16, true
	case int32:
		return types.Int32, true
	case int64:
		return types.Int64, true
	case uint:
		return types.Uint, true
	case uint8:
		return types.Uint8, true
	case uint16:
		return types.Uint16, true
	case uint32:
		return types.Uint32, true
	case uint64:
		return types.Uint64, true
	case uintptr:
		return types.Uintptr, true
	}
	return 0, false
}

func scalarBits(v value) uint64 {
	switch x := v.(type) {
	case bool:
		if x {
			return 1
		}
		return 0
	case int:
		return uint64(x)
	case int8:
		return uint64(x)
	case int16:
		return uint64(x)
	case int32:
		return uint64(x)
	case int64:
		return uint64(x)
	case uint:
		return uint64(x)
	case uint8:
		return uint64(x)
	case uint16:
		return uint64(x)
	case uint32:
		return uint64(x)
	case uint64:
		return x
	case uintptr:
		return uint64(x)
	}
	panic(fmt.Sprintf("scalarBits: %T", v))
}

// mkScalar builds a concrete value of kind k from raw bits.
func mkScalar(k types.BasicKind, bits uint64) value {
	switch k {
	case types.Bool:
		return bits != 0
	case types.Int:
		return int(bits)
	case types.Int8:
		return int8(bits)
	case types.Int16:
		return int16(bits)
	case types.Int32:
		return int32(bits)
	case types.Int64:
		return int64(bits)
	case types.Uint:
		return uint(bits)
	case types.Uint8:
		return uint8(bits)
	case types.Uint16:
		return uint16(bits)
	case types.Uint32:
		return uint32(bits)
	case types.Uint64:
		return bits
	case types.Uintptr:
		return uintptr(bits)
	}
	panic(fmt.Sprintf("mkScalar: %v", k))
}

// norm turns a constant term back into a concrete Go value.
func norm(t *Term, k types.BasicKind) value {
	if t.Op == OpConst {
		if kindSigned(k) {
			return mkScalar(k, uint64(signExt(t.Val, t.W)))
		}
		return mkScalar(k, t.Val)
	}
	return sym{t, k}
}

// lift converts a scalar value (concrete or sym) to a term.
func lift(p *TermPool, v value) (*Term, types.BasicKind) {
	if s, ok := v.(sym); ok {
		return s.t, s.k
	}
	k, ok := kindOf(v)
	if !ok {
		panic(fmt.Sprintf("lift: not a scalar: %T", v))
	}
	return p.Const(kindWidth(k), scalarBits(v)), k
}

func poolOf(vs ...value) *TermPool {
	for _, v := range vs {
		if s, ok := v.(sym); ok {
			return s.t.P
		}
	}
	return nil
}

// symBinop implements binop when at least one operand is sym.
func symBinop(op token.Token, x, y value) value {
	p := poolOf(x, y)
	tx, kx := lift(p, x)
	switch op {
	case token.SHL, token.SHR:
		ty, ky := lift(p, y)
		w := tx.W
		if kindSigned(ky) {
			// negative shift count panics
			neg := p.Bin(OpSlt, ty, p.Const(ty.W, 0))
			if p.ex.Decide(neg) {
				panic("negative shift amount")
			}
		}
		var amt *Term
		var over *Term // amount >= width (when ty is wider than tx)
		if ty.W > w {
			over = p.Not(p.Bin(OpUlt, ty, p.Const(ty.W, uint64(w))))
			amt = p.Extract(ty, 0, w)
		} else {
			amt = p.ZExt(ty, w)
		}
		var r *Term
		switch {
		case op == token.SHL:
			r = p.Bin(OpShl, tx, amt)
			if over != nil {
				r = p.Ite(over, p.Const(w, 0), r)
			}
		case kindSigned(kx):
			r = p.Bin(OpAshr, tx, amt)
			if over != nil {
				r = p.Ite(over, p.Bin(OpAshr, tx, p.Const(w, uint64(w-1))), r)
			}
		default:
			r = p.Bin(OpLshr, tx, amt)
			if over != nil {
				r = p.Ite(over, p.Const(w, 0), r)
			}
		}
		return norm(r, kx)
	}
	ty, ky := lift(p, y)
	if kx != ky {
		// untyped-constant operands can surface with a different kind; adopt x's
		if tx.W != ty.W {
			panic(fmt.Sprintf("symBinop %s: kind mismatch %v vs %v", op, kx, ky))
		}
	}
	sg := kindSigned(kx)
	if kx == types.Bool {
		switch op {
		case token.EQL:
			return norm(p.Eq(tx, ty), types.Bool)
		case token.NEQ:
			return norm(p.Not(p.Eq(tx, ty)), types.Bool)
		case token.AND, token.LAND:
			return norm(p.And(tx, ty), types.Bool)
		case token.OR, token.LOR:
			return norm(p.Or(tx, ty), types.Bool)
		}
		panic(fmt.Sprintf("symBinop: bool op %s", op))
	}
	switch op {
	case token.ADD:
		return norm(p.Bin(OpAdd, tx, ty), kx)
	case token.SUB:
		return norm(p.Bin(OpSub, tx, ty), kx)
	case token.MUL:
		return norm(p.Bin(OpMul, tx, ty), kx)
	case token.QUO, token.REM:
		if p.ex.Decide(p.Eq(ty, p.Const(ty.W, 0))) {
			panic("runtime error: integer divide by zero")
		}
		var o Op
		switch {
		case op == token.QUO && sg:
			o = OpSDiv
		case op == token.QUO:
			o = OpUDiv
		case sg:
			o = OpSRem
		default:
			o = OpURem
		}
		return norm(p.Bin(o, tx, ty), kx)
	case token.AND:
		return norm(p.Bin(OpBvAnd, tx, ty), kx)
	case token.OR:
		return norm(p.Bin(OpBvOr, tx, ty), kx)
	case token.XOR:
		return norm(p.Bin(OpBvXor, tx, ty), kx)
	case token.AND_NOT:
		return norm(p.Bin(OpBvAnd, tx, p.App(OpBvNot, ty.W, 0, ty)), kx)
	case token.EQL:
		return norm(p.Eq(tx, ty), types.Bool)
	case token.NEQ:
		return norm(p.Not(p.Eq(tx, ty)), types.Bool)
	case token.LSS:
		if sg {
			return norm(p.Bin(OpSlt, tx, ty), types.Bool)
		}
		return norm(p.Bin(OpUlt, tx, ty), types.Bool)
	case token.LEQ:
		if sg {
			return norm(p.Bin(OpSle, tx, ty), types.Bool)
		}
		return norm(p.Bin(OpUle, tx, ty), types.Bool)
	case token.GTR:
		if sg {
			return norm(p.Bin(OpSlt, ty, tx), types.Bool)
		}
		return norm(p.Bin(OpUlt, ty, tx), types.Bool)
	case token.GEQ:
		if sg {
			return norm(p.Bin(OpSle, ty, tx), types.Bool)
		}
		return norm(p.Bin(OpUle, ty, tx), types.Bool)
	}
	panic(fmt.Sprintf("symBinop: unsupported op %s", op))
}

func symUnop(op token.Token, x sym) value {
	p := x.t.P
	switch op {
	case token.SUB:
		return norm(p.App(OpNeg, x.t.W, 0, x.t), x.k)
	case token.NOT:
		return norm(p.Not(x.t), types.Bool)
	case token.XOR:
		return norm(p.App(OpBvNot, x.t.W, 0, x.t), x.k)
	}
	panic(fmt.Sprintf("symUnop: unsupported op %s", op))
}

// symConvInt converts a symbolic integer to basic kind dst.
func symConvInt(x sym, dst types.BasicKind) value {
	p := x.t.P
	return norm(p.Resize(x.t, kindWidth(dst), kindSigned(x.k)), dst)
}

// concreteInt64 forces v (possibly symbolic) to a concrete int64, forking
// over the feasible values.
func concreteInt64(v value) int64 {
	if s, ok := v.(sym); ok {
		bits := s.t.P.ex.Concretize(s.t)
		if kindSigned(s.k) {
			return signExt(bits, s.t.W)
		}
		return int64(bits)
	}
	return asInt64raw(v)
}

// concrete forces any scalar to a concrete value of its kind.
func concrete(v value) value {
	if s, ok := v.(sym); ok {
		bits := s.t.P.ex.Concretize(s.t)
		if kindSigned(s.k) {
			return mkScalar(s.k, uint64(signExt(bits, s.t.W)))
		}
		return mkScalar(s.k, bits)
	}
	return v
}

// truth converts a bool-ish value to a Go bool, deciding symbolic ones.
func truth(v value) bool {
	switch b := v.(type) {
	case bool:
		return b
	case sym:
		return b.t.P.ex.Decide(b.t)
	}
	panic(fmt.Sprintf("truth: %T", v))
}

// ------------------------------------------------------------------
// strings with symbolic bytes

func mkstr(bs []value) value {
	for _, b := range bs {
		if isSym(b) {
			return symstr(append([]value(nil), bs...))
		}
	}
	buf := make([]byte, len(bs))
	for i, b := range bs {
		buf[i] = b.(byte)
	}
	return string(buf)
}

func strBytes(v value) []value {
	switch s := v.(type) {
	case string:
		out := make([]value, len(s))
		for i := 0; i < len(s); i++ {
			out[i] = s[i]
		}
		return out
	case symstr:
		return []value(s)
	}
	panic(fmt.Sprintf("strBytes: %T", v))
}

func isStr(v value) bool {
	switch v.(type) {
	case string, symstr:
		return true
	}
	return false
}

// concreteString forces a string value to a Go string.
func concreteString(v value) string {
	switch s := v.(type) {
	case string:
		return s
	case symstr:
		buf := make([]byte, len(s))
		for i, b := range s {
			buf[i] = concrete(b).(byte)
		}
		return string(buf)
	}
	panic(fmt.Sprintf("concreteString: %T", v))
}

// strEqTerm returns x == y for strings as a value (bool or sym).
func strEq(x, y value) value {
	bx, by := strBytes(x), strBytes(y)
	if len(bx) != len(by) {
		return false
	}
	p := poolOf(append(append([]value{}, bx...), by...)...)
	if p == nil {
		return concreteString(x) == concreteString(y)
	}
	acc := p.True
	for i := range bx {
		tx, _ := lift(p, bx[i])
		ty, _ := lift(p, by[i])
		acc = p.And(acc, p.Eq(tx, ty))
		if acc.IsFalse() {
			return false
		}
	}
	return norm(acc, types.Bool)
}

// strLess returns x < y (lexicographic, bytewise) as a value.
func strLess(x, y value) value {
	bx, by := strBytes(x), strBytes(y)
	p := poolOf(append(append([]value{}, bx...), by...)...)
	if p == nil {
		return concreteString(x) < concreteString(y)
	}
	n := len(bx)
	if len(by) < n {
		n = len(by)
	}
	// result = OR_i (prefix equal up to i AND x[i] < y[i])  OR (all equal AND len(x)<len(y))
	res := p.Bool(len(bx) < len(by))
	for i := n - 1; i >= 0; i-- {
		tx, _ := lift(p, bx[i])
		ty, _ := lift(p, by[i])
		res = p.Ite(p.Eq(tx, ty), res, p.Bin(OpUlt, tx, ty))
	}
	return norm(res, types.Bool)
}

func symStrBinop(op token.Token, x, y value) value {
	switch op {
	case token.ADD:
		return mkstr(append(append([]value{}, strBytes(x)...), strBytes(y)...))
	case token.EQL:
		return strEq(x, y)
	case token.NEQ:
		return notv(strEq(x, y))
	case token.LSS:
		return strLess(x, y)
	case token.GTR:
		return strLess(y, x)
	case token.LEQ:
		return notv(strLess(y, x))
	case token.GEQ:
		return notv(strLess(x, y))
	}
	panic(fmt.Sprintf("symStrBinop: %s", op))
}

func notv(v value) value {
	switch b := v.(type) {
	case bool:
		return !b
	case sym:
		return norm(b.t.P.Not(b.t), types.Bool)
	}
	panic("notv")
}

func andv(a, b value) value {
	if ab, ok := a.(bool); ok {
		if !ab {
			return false
		}
		return b
	}
	if bb, ok := b.(bool); ok {
		if !bb {
			return false
		}
		return a
	}
	sa, sb := a.(sym), b.(sym)
	return norm(sa.t.P.And(sa.t, sb.t), types.Bool)
}

// symstrIter implements range over a string with symbolic bytes: decoding is
// done by the interpreted utf8.DecodeRuneInString so that it forks exactly
// like the real code.
type symstrIter struct {
	fr *frame
	s  symstr
	i  int
}

func (it *symstrIter) next() tuple {
	if it.i >= len(it.s) {
		return tuple{false, nil, nil}
	}
	r, n := decodeRuneSym(it.fr, []value(it.s[it.i:]))
	idx := it.i
	it.i += n
	return tuple{true, idx, r}
}

// decodeRuneSym calls the interpreted unicode/utf8.DecodeRune on bs.
func decodeRuneSym(fr *frame, bs []value) (value, int) {
	pkg := fr.i.prog.ImportedPackage("unicode/utf8")
	if pkg == nil {
		unsupported("range over symbolic string without unicode/utf8 in the program")
	}
	fn := pkg.Func("DecodeRune")
	res := call(fr.i, fr, token.NoPos, fn, []value{bs}).(tuple)
	return res[0], int(concreteInt64(res[1]))
}

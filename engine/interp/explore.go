package interp

// Path exploration by decision-prefix replay; assertions, assumptions,
// concretisation; result records.

import (
	"fmt"
	"sort"
	"time"
)

type Decision struct {
	K byte   // 'b' branch, 'c' concretise, 'n' nondeterministic choice
	B bool   // branch side / "equals V"
	V uint64 // concretised value / chosen alternative
	F bool   // forced (other side infeasible) – informational
}

// pathEnd is the panic value that terminates a path early (not an error).
type pathEnd struct{ reason string }

type Counterexample struct {
	Msg   string            `json:"msg"`
	Model map[string]uint64 `json:"model"`
	Path  int               `json:"path"`
	Extra map[string]string `json:"extra,omitempty"`
}

type Sample struct {
	Path      int               `json:"path"`
	Decisions int               `json:"decisions"`
	Model     map[string]uint64 `json:"model"`
	Outcome   string            `json:"outcome"`
	Notes     []string          `json:"notes,omitempty"`
}

type JobResult struct {
	Harness       string           `json:"harness"`
	Arg           int              `json:"arg"`
	Paths         int              `json:"paths"`
	Completed     int              `json:"completed"`
	Dropped       int              `json:"dropped_by_assumption"`
	Decisions     int              `json:"decisions"`
	Forced        int              `json:"forced_decisions"`
	Queries       int              `json:"queries"`
	SolverS       float64          `json:"solver_s"`
	WallS         float64          `json:"wall_s"`
	Steps         int64            `json:"ssa_steps"`
	Asserts       int              `json:"assertions_checked"`
	Discharged    int              `json:"assertions_discharged"`
	Trivial       int              `json:"assertions_trivial"`
	Reached       map[string]int   `json:"reached"`
	Cex           []Counterexample `json:"counterexamples,omitempty"`
	Inconclusive  []string         `json:"inconclusive,omitempty"`
	Samples       []Sample         `json:"samples,omitempty"`
	Exhausted     bool             `json:"exhausted"` // work list emptied within budget
	SolverErrors  []string         `json:"solver_errors,omitempty"`
	Funcs         []string         `json:"functions_encoded,omitempty"`
	MaxPathSteps  int64            `json:"max_path_steps"`
	PendingAtStop int              `json:"pending_at_stop"`
}

type Explorer struct {
	Pool *TermPool
	S    *Solver

	prefix []Decision
	pos    int
	trace  []Decision
	work   [][]Decision
	inputs []*Term
	notes  []string

	// configuration
	MaxPaths    int
	Deadline    time.Time
	SampleEvery int
	MaxFanout   int
	MaxCex      int

	orderHook   func(fr *frame, m *omap) []int
	poolHook    func(fr *frame, pool *value) (value, bool)
	poolPutHook func(fr *frame, pool *value, v value)
	poolGotHook func(v value)

	curModel  map[string]uint64
	evalMemo  map[int]uint64
	decided   map[int]bool
	chosen    map[string]uint64
	chooseCnt map[string]int

	Res       *JobResult
	pathIdx   int
	pathInc   bool
	cexOnPath int
	fanout    int
}

func NewExplorer(s *Solver) *Explorer {
	ex := &Explorer{Pool: NewTermPool(), S: s, MaxPaths: 1 << 30, SampleEvery: 0, MaxFanout: 256, MaxCex: 8}
	ex.Pool.ex = ex
	return ex
}

func (ex *Explorer) replaying() bool { return ex.pos < len(ex.prefix) }

func (ex *Explorer) inconclusive(msg string) {
	ex.pathInc = true
	for _, m := range ex.Res.Inconclusive {
		if m == msg {
			return
		}
	}
	if len(ex.Res.Inconclusive) < 20 {
		ex.Res.Inconclusive = append(ex.Res.Inconclusive, msg)
	}
}

func (ex *Explorer) check(extra *Term) SatResult {
	r, _ := ex.S.Check(extra, false, nil)
	return r
}

// setModel installs a model known to satisfy the current path condition.
func (ex *Explorer) setModel(m map[string]uint64) {
	ex.curModel = m
	ex.evalMemo = make(map[int]uint64)
}

func (ex *Explorer) evalCur(t *Term) (uint64, bool) {
	if ex.curModel == nil {
		return 0, false
	}
	return t.Eval(ex.curModel, ex.evalMemo), true
}

// addPC asserts t into the path condition, keeping the cached model only if
// it still satisfies it.
func (ex *Explorer) addPC(t *Term) {
	ex.S.Assert(t)
	if v, ok := ex.evalCur(t); ok && v == 0 {
		ex.curModel = nil
	}
}

// Decide returns the truth value of c on this path, forking when both are
// feasible under the path condition.
func (ex *Explorer) Decide(c *Term) bool {
	if c.Op == OpConst {
		return c.Val != 0
	}
	// a condition already decided on this path (hash-consed identity) is free
	if b, ok := ex.decided[c.ID]; ok {
		return b
	}
	if c.Op == OpNot {
		if b, ok := ex.decided[c.Args[0].ID]; ok {
			return !b
		}
	}
	b := ex.decide1(c)
	ex.decided[c.ID] = b
	return b
}

func (ex *Explorer) decide1(c *Term) bool {
	if ex.replaying() {
		d := ex.prefix[ex.pos]
		if d.K != 'b' {
			panic(engineError{fmt.Sprintf("replay divergence: expected %c got branch at %d", d.K, ex.pos)})
		}
		ex.pos++
		ex.trace = append(ex.trace, d)
		if !d.F {
			if d.B {
				ex.S.Assert(c)
			} else {
				ex.S.Assert(ex.Pool.Not(c))
			}
		}
		return d.B
	}
	ex.Res.Decisions++
	notc := ex.Pool.Not(c)
	unknown := func() {
		ex.inconclusive("solver unknown on branch condition")
		panic(pathEnd{"unknown"})
	}
	forced := func(b bool) bool {
		ex.Res.Forced++
		ex.trace = append(ex.trace, Decision{K: 'b', B: b, F: true})
		ex.pos++
		return b
	}
	fork := func() bool {
		// both feasible: schedule the false side, continue on the true side
		alt := append(append([]Decision(nil), ex.trace...), Decision{K: 'b', B: false})
		ex.work = append(ex.work, alt)
		ex.trace = append(ex.trace, Decision{K: 'b', B: true})
		ex.pos++
		ex.S.Assert(c)
		return true
	}
	if v, ok := ex.evalCur(c); ok {
		if v != 0 {
			// the cached model witnesses PC ∧ c
			switch r, _ := ex.S.Check(notc, false, nil); r {
			case Unsat:
				return forced(true)
			case Unknown:
				unknown()
			}
			return fork()
		}
		// the cached model witnesses PC ∧ ¬c
		r, m := ex.S.Check(c, true, ex.inputs)
		switch r {
		case Unsat:
			return forced(false)
		case Unknown:
			unknown()
		}
		ex.setModel(m)
		return fork()
	}
	r, m := ex.S.Check(c, true, ex.inputs)
	switch r {
	case Unsat:
		return forced(false)
	case Unknown:
		unknown()
	}
	ex.setModel(m)
	switch ex.check(notc) {
	case Unsat:
		return forced(true)
	case Unknown:
		unknown()
	}
	return fork()
}

// Concretize picks a feasible value for t and forks over the others.
func (ex *Explorer) Concretize(t *Term) uint64 {
	if t.Op == OpConst {
		return t.Val
	}
	tries := 0
	for {
		if ex.replaying() {
			d := ex.prefix[ex.pos]
			if d.K != 'c' {
				panic(engineError{fmt.Sprintf("replay divergence: expected %c got concretise at %d", d.K, ex.pos)})
			}
			ex.pos++
			ex.trace = append(ex.trace, d)
			eq := ex.Pool.Eq(t, ex.Pool.Const(t.W, d.V))
			if d.B {
				if !d.F {
					ex.S.Assert(eq)
				}
				return d.V
			}
			ex.S.Assert(ex.Pool.Not(eq))
			tries++
			continue
		}
		if tries > ex.MaxFanout {
			panic(engineError{fmt.Sprintf("concretisation fan-out > %d", ex.MaxFanout)})
		}
		ex.Res.Decisions++
		v, ok := ex.evalCur(t)
		if !ok {
			r, model := ex.S.Check(nil, true, ex.inputs)
			if r != Sat {
				ex.inconclusive("solver " + r.String() + " while concretising")
				panic(pathEnd{"unknown"})
			}
			ex.setModel(model)
			v, _ = ex.evalCur(t)
		}
		eq := ex.Pool.Eq(t, ex.Pool.Const(t.W, v))
		switch ex.check(ex.Pool.Not(eq)) {
		case Unsat:
			ex.Res.Forced++
			ex.trace = append(ex.trace, Decision{K: 'c', B: true, V: v, F: true})
			ex.pos++
			return v
		case Unknown:
			ex.inconclusive("solver unknown while concretising")
			panic(pathEnd{"unknown"})
		}
		alt := append(append([]Decision(nil), ex.trace...), Decision{K: 'c', B: false, V: v})
		ex.work = append(ex.work, alt)
		ex.trace = append(ex.trace, Decision{K: 'c', B: true, V: v})
		ex.pos++
		ex.S.Assert(eq)
		return v
	}
}

// Choose returns a nondeterministic value in [0,n).
func (ex *Explorer) Choose(n int) int {
	if n <= 1 {
		return 0
	}
	if ex.replaying() {
		d := ex.prefix[ex.pos]
		if d.K != 'n' {
			panic(engineError{fmt.Sprintf("replay divergence: expected %c got choose at %d", d.K, ex.pos)})
		}
		ex.pos++
		ex.trace = append(ex.trace, d)
		return int(d.V)
	}
	ex.Res.Decisions++
	for k := n - 1; k >= 1; k-- {
		alt := append(append([]Decision(nil), ex.trace...), Decision{K: 'n', V: uint64(k)})
		ex.work = append(ex.work, alt)
	}
	ex.trace = append(ex.trace, Decision{K: 'n', V: 0})
	ex.pos++
	return 0
}

// ChooseNamed is Choose whose result is recorded in every model of this path
// under "<name>#<k>" (k = number of earlier choices with that name), which is
// what the native shim's symChoose reads on replay.
func (ex *Explorer) ChooseNamed(name string, n int) int {
	v := ex.Choose(n)
	if ex.chosen == nil {
		ex.chosen = make(map[string]uint64)
		ex.chooseCnt = make(map[string]int)
	}
	k := ex.chooseCnt[name]
	ex.chooseCnt[name] = k + 1
	ex.chosen[fmt.Sprintf("%s#%d", name, k)] = uint64(v)
	return v
}

func (ex *Explorer) withChosen(m map[string]uint64) map[string]uint64 {
	if len(ex.chosen) == 0 {
		return m
	}
	if m == nil {
		m = make(map[string]uint64)
	}
	for k, v := range ex.chosen {
		m[k] = v
	}
	return m
}

func (ex *Explorer) NewVar(name string, w int) *Term {
	t := ex.Pool.Var(name, w)
	for _, v := range ex.inputs {
		if v == t {
			return t
		}
	}
	ex.inputs = append(ex.inputs, t)
	return t
}

func (ex *Explorer) Assume(c value) {
	switch b := c.(type) {
	case bool:
		if !b {
			ex.Res.Dropped++
			panic(pathEnd{"assume false"})
		}
	case sym:
		if ex.replaying() {
			ex.S.Assert(b.t)
			return
		}
		if v, ok := ex.evalCur(b.t); ok && v != 0 {
			ex.S.Assert(b.t)
			return
		}
		r, m := ex.S.Check(b.t, true, ex.inputs)
		switch r {
		case Unsat:
			ex.Res.Dropped++
			panic(pathEnd{"assume infeasible"})
		case Unknown:
			ex.inconclusive("solver unknown on assumption")
			panic(pathEnd{"unknown"})
		}
		ex.S.Assert(b.t)
		ex.setModel(m)
	default:
		panic(fmt.Sprintf("Assume: %T", c))
	}
}

func (ex *Explorer) model() map[string]uint64 {
	if ex.curModel != nil {
		out := make(map[string]uint64, len(ex.inputs))
		for _, v := range ex.inputs {
			out[v.Name] = ex.curModel[v.Name]
		}
		return ex.withChosen(out)
	}
	r, m := ex.S.Check(nil, true, ex.inputs)
	if r != Sat {
		return ex.withChosen(nil)
	}
	if m == nil {
		m = map[string]uint64{}
	}
	return ex.withChosen(m)
}

func (ex *Explorer) addCex(msg string, model map[string]uint64) {
	ex.cexOnPath++
	if len(ex.Res.Cex) >= ex.MaxCex {
		return
	}
	ex.Res.Cex = append(ex.Res.Cex, Counterexample{Msg: msg, Model: model, Path: ex.pathIdx})
}

// Assert checks that c holds for every input on this path.
func (ex *Explorer) Assert(c value, msg string) {
	switch b := c.(type) {
	case bool:
		if ex.replaying() {
			if !b {
				panic(pathEnd{"assertion failed (replayed)"})
			}
			return
		}
		ex.Res.Asserts++
		if b {
			ex.Res.Trivial++
			ex.Res.Discharged++
			return
		}
		ex.addCex(msg, ex.model())
		panic(pathEnd{"assertion failed"})
	case sym:
		if ex.replaying() {
			ex.S.Assert(b.t)
			return
		}
		ex.Res.Asserts++
		r, model := ex.S.Check(ex.Pool.Not(b.t), true, ex.inputs)
		switch r {
		case Unsat:
			ex.Res.Discharged++
			return
		case Unknown:
			ex.inconclusive("solver unknown on assertion: " + msg)
			return
		}
		ex.addCex(msg, ex.withChosen(model))
		// continue on the part of the path where the assertion holds
		switch ex.check(b.t) {
		case Sat:
			ex.addPC(b.t)
		default:
			panic(pathEnd{"assertion failed on the whole path"})
		}
	default:
		panic(fmt.Sprintf("Assert: %T", c))
	}
}

func (ex *Explorer) Reach(tag string) {
	if ex.Res.Reached == nil {
		ex.Res.Reached = make(map[string]int)
	}
	ex.Res.Reached[tag]++
}

func (ex *Explorer) Note(s string) { ex.notes = append(ex.notes, s) }

// Run explores all paths of body (a closure running one harness invocation on
// a freshly reset machine) within the budgets.
func (ex *Explorer) Run(res *JobResult, resetAndRun func() (outcome string)) {
	ex.Res = res
	start := time.Now()
	ex.work = [][]Decision{nil}
	for len(ex.work) > 0 {
		if res.Paths >= ex.MaxPaths || (!ex.Deadline.IsZero() && time.Now().After(ex.Deadline)) {
			break
		}
		// depth-first: take the most recently scheduled prefix
		ex.prefix = ex.work[len(ex.work)-1]
		ex.work = ex.work[:len(ex.work)-1]
		ex.pos = 0
		ex.trace = ex.trace[:0]
		ex.inputs = ex.inputs[:0]
		ex.notes = nil
		ex.pathInc = false
		ex.cexOnPath = 0
		ex.pathIdx = res.Paths
		res.Paths++
		ex.curModel = nil
		ex.chosen, ex.chooseCnt = nil, nil
		ex.decided = make(map[int]bool)
		ex.S.Reset()
		outcome := resetAndRun()
		if !ex.pathInc && outcome != "dropped" {
			res.Completed++
		}
		if ex.SampleEvery > 0 && (ex.pathIdx%ex.SampleEvery == 0) && len(res.Samples) < 64 && outcome != "dropped" && !ex.pathInc && ex.cexOnPath == 0 {
			if m := ex.model(); m != nil {
				res.Samples = append(res.Samples, Sample{Path: ex.pathIdx, Decisions: len(ex.trace), Model: m, Outcome: outcome, Notes: ex.notes})
			}
		}
	}
	res.PendingAtStop = len(ex.work)
	res.Exhausted = len(ex.work) == 0
	if !res.Exhausted {
		ex.inconclusive(fmt.Sprintf("budget exhausted with %d prefixes pending", len(ex.work)))
	}
	res.Queries = ex.S.Queries
	res.SolverS = ex.S.Time.Seconds()
	res.WallS = time.Since(start).Seconds()
	res.SolverErrors = append(res.SolverErrors, ex.S.Errors...)
	if len(ex.S.Errors) > 0 {
		ex.inconclusive("solver errors: " + ex.S.Errors[0])
	}
	sort.Strings(res.Inconclusive)
}

export PATH=/opt/veriftools/go1.26.8/bin:$PATH GOFLAGS=-mod=mod GOPROXY=off GOSUMDB=off GOTOOLCHAIN=local

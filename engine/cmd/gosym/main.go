// gosym: bounded symbolic execution of Go (go/ssa) harnesses with an SMT solver.
package main

import (
	"encoding/json"
	"flag"
	"fmt"
	"os"
	"regexp"
	"runtime/debug"
	"runtime/pprof"
	"sort"
	"strconv"
	"strings"
	"sync"
	"time"

	"gosym/interp"

	"golang.org/x/tools/go/packages"
	"golang.org/x/tools/go/ssa"
	"golang.org/x/tools/go/ssa/ssautil"
)

type job struct {
	fn  *ssa.Function
	arg int
	res *interp.JobResult
}

type output struct {
	Dir       string              `json:"dir"`
	LoadS     float64             `json:"load_s"`
	WallS     float64             `json:"wall_s"`
	Jobs      []*interp.JobResult `json:"jobs"`
	Externals []string            `json:"externals"`
	Errors    []string            `json:"errors,omitempty"`
}

func main() {
	dir := flag.String("dir", ".", "module directory to load")
	pats := flag.String("pkgs", "./...", "comma-separated package patterns")
	hre := flag.String("harness", "", "regexp selecting harness functions (matched against pkgpath.Name)")
	nmin := flag.Int("nmin", 0, "smallest integer argument")
	nmax := flag.Int("nmax", 0, "largest integer argument")
	under := flag.String("under-test", "", "comma-separated package path prefixes re-initialised per path (default: the loaded module's packages)")
	workers := flag.Int("j", 8, "parallel workers")
	timeout := flag.Duration("timeout", 0, "wall budget per job")
	maxPaths := flag.Int("max-paths", 0, "path budget per job")
	maxSteps := flag.Int64("max-steps", 2_000_000, "SSA step limit per path (unwinding assertion)")
	maxDepth := flag.Int("max-depth", 2000, "call depth limit")
	out := flag.String("out", "", "JSON result file (default stdout)")
	solver := flag.String("solver", "z3-new", "z3 | z3-new | cvc5")
	solverMs := flag.Int("solver-ms", 30000, "per-query timeout in ms")
	sample := flag.Int("sample-every", 0, "record a model for every k-th path")
	overlay := flag.String("overlay", "", "JSON file {virtual path: real path} of source overlays")
	tags := flag.String("tags", "", "build tags")
	trace := flag.Bool("trace", false, "trace SSA execution")
	slog := flag.String("solver-log", "", "write the SMT-LIB dialogue of worker 0 here")
	argList := flag.String("args", "", "explicit comma-separated list of integer arguments (overrides -nmin/-nmax)")
	cpuprof := flag.String("cpuprofile", "", "write a CPU profile here")
	flag.Parse()
	if os.Getenv("GOGC") == "" {
		// the SSA program is a large, static live heap: collect less often
		debug.SetGCPercent(400)
	}
	if *cpuprof != "" {
		f, err := os.Create(*cpuprof)
		if err == nil {
			pprof.StartCPUProfile(f)
			defer pprof.StopCPUProfile()
		}
	}

	t0 := time.Now()
	cfg := &packages.Config{Mode: packages.LoadAllSyntax | packages.NeedModule, Dir: *dir, Env: os.Environ()}
	if *tags != "" {
		cfg.BuildFlags = []string{"-tags=" + *tags}
	}
	if *overlay != "" {
		raw, err := os.ReadFile(*overlay)
		if err != nil {
			fatal(err)
		}
		m := map[string]string{}
		if err := json.Unmarshal(raw, &m); err != nil {
			fatal(err)
		}
		cfg.Overlay = map[string][]byte{}
		for virt, real := range m {
			b, err := os.ReadFile(real)
			if err != nil {
				fatal(err)
			}
			cfg.Overlay[virt] = b
		}
	}
	initial, err := packages.Load(cfg, strings.Split(*pats, ",")...)
	if err != nil {
		fatal(err)
	}
	o := &output{Dir: *dir, Externals: interp.ExternalNames()}
	bad := false
	packages.Visit(initial, nil, func(p *packages.Package) {
		for _, e := range p.Errors {
			o.Errors = append(o.Errors, e.Error())
			bad = true
		}
	})
	if bad {
		emit(o, *out)
		fmt.Fprintln(os.Stderr, "gosym: package errors:", strings.Join(o.Errors, "; "))
		os.Exit(3)
	}
	prog, pkgs := ssautil.AllPackages(initial, ssa.InstantiateGenerics)
	prog.Build()
	o.LoadS = time.Since(t0).Seconds()

	var prefixes []string
	if *under != "" {
		prefixes = strings.Split(*under, ",")
	} else {
		seen := map[string]bool{}
		for _, p := range initial {
			if p.Module != nil && !seen[p.Module.Path] {
				seen[p.Module.Path] = true
				prefixes = append(prefixes, p.Module.Path)
			}
		}
	}
	underTest := func(path string) bool {
		for _, pre := range prefixes {
			if path == pre || strings.HasPrefix(path, pre+"/") {
				return true
			}
		}
		return false
	}

	re := regexp.MustCompile(*hre)
	var jobs []*job
	for _, p := range pkgs {
		if p == nil {
			continue
		}
		var names []string
		for n := range p.Members {
			names = append(names, n)
		}
		sort.Strings(names)
		for _, n := range names {
			fn, ok := p.Members[n].(*ssa.Function)
			if !ok || !strings.HasPrefix(n, "Harness") {
				continue
			}
			full := p.Pkg.Path() + "." + n
			if !re.MatchString(full) {
				continue
			}
			if fn.Signature.Params().Len() == 1 {
				var as []int
				if *argList != "" {
					for _, f := range strings.Split(*argList, ",") {
						if v, err := strconv.Atoi(strings.TrimSpace(f)); err == nil {
							as = append(as, v)
						}
					}
				} else {
					for a := *nmin; a <= *nmax; a++ {
						as = append(as, a)
					}
				}
				for _, a := range as {
					jobs = append(jobs, &job{fn: fn, arg: a, res: &interp.JobResult{Harness: full, Arg: a}})
				}
			} else {
				jobs = append(jobs, &job{fn: fn, res: &interp.JobResult{Harness: full}})
			}
		}
	}
	if len(jobs) == 0 {
		o.Errors = append(o.Errors, "no harness matched")
		emit(o, *out)
		os.Exit(3)
	}
	// larger arguments first: they dominate the wall time
	sort.SliceStable(jobs, func(a, b int) bool { return jobs[a].arg > jobs[b].arg })

	ch := make(chan *job)
	var wg sync.WaitGroup
	var mu sync.Mutex
	for w := 0; w < *workers; w++ {
		wg.Add(1)
		go func(w int) {
			defer wg.Done()
			mc := interp.Config{
				UnderTest: underTest, MaxSteps: *maxSteps, MaxDepth: *maxDepth, MaxPaths: *maxPaths,
				Timeout: *timeout, SampleEvery: *sample, Trace: *trace, SolverName: *solver, SolverMs: *solverMs,
			}
			if w == 0 {
				mc.SolverLog = *slog
			}
			m, err := interp.NewMachine(prog, mc)
			if err != nil {
				mu.Lock()
				o.Errors = append(o.Errors, "machine: "+err.Error())
				mu.Unlock()
				for range ch {
				}
				return
			}
			defer m.Close()
			for j := range ch {
				m.RunJob(j.fn, j.arg, j.res)
			}
		}(w)
	}
	for _, j := range jobs {
		ch <- j
	}
	close(ch)
	wg.Wait()
	for _, j := range jobs {
		o.Jobs = append(o.Jobs, j.res)
	}
	sort.SliceStable(o.Jobs, func(a, b int) bool {
		if o.Jobs[a].Harness != o.Jobs[b].Harness {
			return o.Jobs[a].Harness < o.Jobs[b].Harness
		}
		return o.Jobs[a].Arg < o.Jobs[b].Arg
	})
	o.WallS = time.Since(t0).Seconds()
	emit(o, *out)
	code := 0
	for _, j := range o.Jobs {
		if len(j.Cex) > 0 {
			code = 1
		}
	}
	if code == 0 {
		for _, j := range o.Jobs {
			if len(j.Inconclusive) > 0 {
				code = 2
			}
		}
	}
	if len(o.Errors) > 0 && code == 0 {
		code = 3
	}
	pprof.StopCPUProfile()
	os.Exit(code)
}

func emit(o *output, path string) {
	b, _ := json.MarshalIndent(o, "", " ")
	if path == "" {
		os.Stdout.Write(b)
		os.Stdout.WriteString("\n")
		return
	}
	if err := os.WriteFile(path, b, 0o644); err != nil {
		fatal(err)
	}
}

func fatal(err error) {
	fmt.Fprintln(os.Stderr, "gosym:", err)
	os.Exit(3)
}

// Package ref is the reference PEG interpreter ("refpeg") used as the oracle
// for the catalogue grammars. It is written from pigeon's documentation and
// the property statements (see DESIGN.md, Appendix B); it shares no code with
// pigeon and works on bytes and indices only.
package ref

import (
	"sort"
	"strconv"
	"unicode"
)

type Kind int

const (
	Lit Kind = iota
	Cls
	Any
	Seq
	Choice
	Star
	Plus
	Opt
	And
	Not
	Label
	Ref
	Act
	AndCode
	NotCode
	State
	Throw
	Recover
)

type BlockKind int

const (
	BRec   BlockKind = iota // action: value = record, traced
	BText                   // action: value = string(text)
	BLab                    // action: value = label Args[0]
	BFault                  // action: record, then fault from the plan (slot Slot)
	BConst                  // action: value = Tag (a string constant), not traced
	PConst                  // predicate: returns Val != 0, traced
	PLab                    // predicate: first byte of label Args[0] == Val
	PState                  // predicate: state[Key] % 2 == Val
	PMut                    // predicate: state[Key] = 99; true
	PFault                  // predicate: traced, returns true, fault from plan
	SSet                    // state: state[Key] = Val
	SInc                    // state: state[Key]++
	SBox                    // state: *state[Key].(box).p++
	SFault                  // state: traced, fault from plan
	GInc                    // action: globalStore[Key]++ ; value = record
	AMut                    // action: state[Key] = 77 (must be discarded); value = record
)

type Block struct {
	Kind  BlockKind
	Tag   string
	Args  []string // labels passed to the block (static scope, in order)
	Key   string
	Val   int
	Slot  int
	Trace bool
}

type Node struct {
	Kind       Kind
	Kids       []*Node
	Val        string // Lit: literal value; Ref/Label/Throw: name
	IgnoreCase bool
	Want       string // spelling in "expected" lists
	Chars      []rune
	Ranges     []rune
	Classes    []string
	Inverted   bool
	Labels     []string // Recover: failure labels
	Block      *Block
}

type Rule struct {
	Name    string
	Display string
	Expr    *Node
	// left-recursive rule of the form A <- A a1 / ... / A an / b1 / ... / bm
	LR bool
}

type Grammar struct {
	Rules []*Rule
}

// Fault codes of the symbolic fault plan.
const (
	FNone = iota
	FErrA
	FErrB
	FPanic
)

type Config struct {
	File      string
	AllowBad  bool      // AllowInvalidUTF8
	Recover   bool      // Recover option
	Faults    [8][3]int // fault plan
	InitState map[string]int
	BoxKeys   map[string]bool // keys whose value is a Cloner box
	// PredCtxStale selects nothing in the reference; present so that harnesses
	// can document which context they compare.
}

type TraceRec struct {
	Tag  string
	Text string
	Line int
	Col  int
	Off  int
	Args []any
}

type Attempt struct {
	Off  int
	Want string
}

type Result struct {
	OK       bool
	End      int
	Val      any
	Errs     []string // formatted, de-duplicated; includes the no-match error
	Panicked bool
	PanicMsg string
	Trace    []any
	State    map[string]int
	Global   map[string]int
	FailOff  int
	Expected []string
	NoMatch  bool // the synthesized "no match found" error is the (only) error
	Evals    int  // number of expression evaluations (one per expression node entered)
}

type handler struct {
	labels []string
	expr   *Node
}

type panicSignal struct{ msg string }

type M struct {
	g       *Grammar
	in      []byte
	cfg     Config
	state   map[string]int
	global  map[string]int
	scopes  []map[string]any
	hs      []handler
	errs    []string
	trace   []any
	rules   []string // rule stack (names as displayed)
	failO   int
	failS   []string
	parity  int
	faultN  [8]int
	lrVal   map[string]lrBinding
	steps   int
	panicAt int
}

type lrBinding struct {
	off int
	ok  bool
	end int
	val any
}

func (m *M) rule(name string) *Rule {
	for _, r := range m.g.Rules {
		if r.Name == name {
			return r
		}
	}
	return nil
}

// Decode classifies the bytes at o per RFC 3629: a well-formed sequence gives
// its scalar value and width; anything else is U+FFFD of width 1.
func Decode(in []byte, o int) (r rune, w int, valid bool) {
	b0 := in[o]
	if b0 < 0x80 {
		return rune(b0), 1, true
	}
	if b0 < 0xC2 || b0 > 0xF4 {
		return 0xFFFD, 1, false
	}
	n := len(in) - o
	if b0 < 0xE0 {
		if n < 2 {
			return 0xFFFD, 1, false
		}
		b1 := in[o+1]
		if b1 < 0x80 || b1 > 0xBF {
			return 0xFFFD, 1, false
		}
		return rune(b0&0x1F)<<6 | rune(b1&0x3F), 2, true
	}
	if b0 < 0xF0 {
		if n < 3 {
			return 0xFFFD, 1, false
		}
		b1, b2 := in[o+1], in[o+2]
		lo, hi := byte(0x80), byte(0xBF)
		if b0 == 0xE0 {
			lo = 0xA0 // no overlongs
		}
		if b0 == 0xED {
			hi = 0x9F // no surrogates
		}
		if b1 < lo || b1 > hi || b2 < 0x80 || b2 > 0xBF {
			return 0xFFFD, 1, false
		}
		return rune(b0&0x0F)<<12 | rune(b1&0x3F)<<6 | rune(b2&0x3F), 3, true
	}
	if n < 4 {
		return 0xFFFD, 1, false
	}
	b1, b2, b3 := in[o+1], in[o+2], in[o+3]
	lo, hi := byte(0x80), byte(0xBF)
	if b0 == 0xF0 {
		lo = 0x90
	}
	if b0 == 0xF4 {
		hi = 0x8F
	}
	if b1 < lo || b1 > hi || b2 < 0x80 || b2 > 0xBF || b3 < 0x80 || b3 > 0xBF {
		return 0xFFFD, 1, false
	}
	return rune(b0&0x07)<<18 | rune(b1&0x3F)<<12 | rune(b2&0x3F)<<6 | rune(b3&0x3F), 4, true
}

// LineCol is the documented position of byte offset o: line counts newlines,
// col counts runes since the last newline (see Appendix B for the convention
// at a newline and at end of input).
func LineCol(in []byte, o int) (line, col int) {
	line, col = 1, 0
	q := 0
	for {
		if q >= len(in) {
			// end-of-input pseudo position
			col++
			return
		}
		r, w, _ := Decode(in, q)
		col++
		if r == '\n' {
			line++
			col = 0
		}
		if q >= o {
			return
		}
		q += w
	}
}

func (m *M) posString(o int) string {
	l, c := LineCol(m.in, o)
	return strconv.Itoa(l) + ":" + strconv.Itoa(c) + " (" + strconv.Itoa(o) + ")"
}

func (m *M) addErr(o int, msg string) {
	s := ""
	if m.cfg.File != "" {
		s = m.cfg.File + ":"
	}
	s += m.posString(o)
	if len(m.rules) > 0 {
		s += ": rule " + m.rules[len(m.rules)-1]
	}
	s += ": " + msg
	m.errs = append(m.errs, s)
}

// visit notes that the parser has advanced onto offset o (it decodes the rune
// there): an invalid byte is reported unless allowed.
func (m *M) visit(o int) {
	if o >= len(m.in) {
		return
	}
	_, _, valid := Decode(m.in, o)
	if !valid && !m.cfg.AllowBad {
		m.addErr(o, "invalid encoding")
	}
}

func (m *M) attempt(o int, want string, matched bool) {
	odd := m.parity%2 == 1
	if matched != odd {
		return
	}
	if o < m.failO {
		return
	}
	if o > m.failO {
		m.failO = o
		m.failS = m.failS[:0]
	}
	if odd {
		want = "!" + want
	}
	m.failS = append(m.failS, want)
}

func classTable(name string) *unicode.RangeTable {
	if t, ok := unicode.Categories[name]; ok {
		return t
	}
	if t, ok := unicode.Properties[name]; ok {
		return t
	}
	if t, ok := unicode.Scripts[name]; ok {
		return t
	}
	return nil
}

func (m *M) pushScope() { m.scopes = append(m.scopes, map[string]any{}) }
func (m *M) popScope()  { m.scopes = m.scopes[:len(m.scopes)-1] }

func copyState(s map[string]int) map[string]int {
	c := make(map[string]int, len(s))
	for k, v := range s {
		c[k] = v
	}
	return c
}

func (m *M) fault(slot int) int {
	j := m.faultN[slot]
	m.faultN[slot]++
	if j < 3 {
		return m.cfg.Faults[slot][j]
	}
	return FNone
}

func (m *M) args(b *Block) []any {
	sc := m.scopes[len(m.scopes)-1]
	out := make([]any, 0, len(b.Args))
	for _, a := range b.Args {
		out = append(out, sc[a])
	}
	return out
}

func (m *M) rec(b *Block, text string, o int) []any {
	l, c := LineCol(m.in, o)
	r := []any{b.Tag, text, l, c, o}
	r = append(r, m.args(b)...)
	return r
}

// runBlock executes a menu block. text/o are the context the documentation
// promises: the match and its start for actions; empty text and the current
// position for predicates and state blocks.
func (m *M) runBlock(b *Block, text string, o int, cur int) (val any, pred bool, err string) {
	pred = true
	m.panicAt = cur
	switch b.Kind {
	case BRec, BFault, GInc, AMut:
		r := m.rec(b, text, o)
		m.trace = append(m.trace, r)
		val = r
		if b.Kind == GInc {
			m.global[b.Key]++
		}
		if b.Kind == AMut {
			m.state[b.Key] = 77
		}
		if b.Kind == BFault {
			switch m.fault(b.Slot) {
			case FErrA:
				err = "errA"
			case FErrB:
				err = "errB"
			case FPanic:
				panic(panicSignal{"boom"})
			}
		}
	case BText:
		val = text
	case BConst:
		val = b.Tag
	case BLab:
		val = m.scopes[len(m.scopes)-1][b.Args[0]]
	case PConst:
		m.trace = append(m.trace, m.rec(b, text, o))
		pred = b.Val != 0
	case PFault, SFault:
		m.trace = append(m.trace, m.rec(b, text, o))
		switch m.fault(b.Slot) {
		case FErrA:
			err = "errA"
		case FErrB:
			err = "errB"
		case FPanic:
			panic(panicSignal{"boom"})
		}
	case PLab:
		m.trace = append(m.trace, m.rec(b, text, o))
		v, _ := m.scopes[len(m.scopes)-1][b.Args[0]].([]byte)
		pred = len(v) > 0 && int(v[0]) == b.Val
	case PState:
		m.trace = append(m.trace, []any{b.Tag, m.state[b.Key]})
		pred = m.state[b.Key]%2 == b.Val
	case PMut:
		m.state[b.Key] = 99
	case SSet:
		m.trace = append(m.trace, []any{b.Tag, m.state[b.Key]})
		m.state[b.Key] = b.Val
	case SInc, SBox:
		m.trace = append(m.trace, []any{b.Tag, m.state[b.Key]})
		m.state[b.Key]++
	}
	return
}

const maxSteps = 100000

// eval evaluates n at o. Whatever the kind of expression, a failure leaves
// the store exactly as it was on entry (the documented backtracking rule).
func (m *M) eval(n *Node, o int) (ok bool, end int, v any) {
	st := copyState(m.state)
	ok, end, v = m.eval1(n, o)
	if !ok {
		m.state = st
		end, v = o, nil
	}
	return
}

func (m *M) eval1(n *Node, o int) (ok bool, end int, v any) {
	m.steps++
	if m.steps > maxSteps {
		panic("refpeg: step limit")
	}
	switch n.Kind {
	case Lit:
		q := o
		match := true
		rs := []rune(n.Val)
		for _, want := range rs {
			if q >= len(m.in) {
				match = false // the end of input is not a rune
				break
			}
			r, w, _ := Decode(m.in, q)
			if n.IgnoreCase {
				r = unicode.ToLower(r)
				want = unicode.ToLower(want)
			}
			if r != want {
				match = false
				break
			}
			q += w
			m.visit(q)
		}
		m.attempt(o, n.Want, match)
		if !match {
			return false, o, nil
		}
		return true, q, m.in[o:q]
	case Cls:
		if o >= len(m.in) {
			m.attempt(o, n.Want, false)
			return false, o, nil
		}
		r, w, _ := Decode(m.in, o)
		if n.IgnoreCase {
			r = unicode.ToLower(r)
		}
		member := false
		for _, c := range n.Chars {
			if n.IgnoreCase {
				c = unicode.ToLower(c)
			}
			if c == r {
				member = true
			}
		}
		for i := 0; i+1 < len(n.Ranges); i += 2 {
			lo, hi := n.Ranges[i], n.Ranges[i+1]
			if n.IgnoreCase {
				lo, hi = unicode.ToLower(lo), unicode.ToLower(hi)
			}
			if r >= lo && r <= hi {
				member = true
			}
		}
		for _, cl := range n.Classes {
			if t := classTable(cl); t != nil && unicode.Is(t, r) {
				member = true
			}
		}
		match := member != n.Inverted
		m.attempt(o, n.Want, match)
		if !match {
			return false, o, nil
		}
		m.visit(o + w)
		return true, o + w, m.in[o : o+w]
	case Any:
		if o >= len(m.in) {
			m.attempt(o, ".", false)
			return false, o, nil
		}
		_, w, _ := Decode(m.in, o)
		m.attempt(o, ".", true)
		m.visit(o + w)
		return true, o + w, m.in[o : o+w]
	case Seq:
		st := copyState(m.state)
		vals := make([]any, 0, len(n.Kids))
		q := o
		for _, k := range n.Kids {
			kok, kend, kv := m.eval(k, q)
			if !kok {
				m.state = st
				return false, o, nil
			}
			q = kend
			vals = append(vals, kv)
		}
		return true, q, vals
	case Choice:
		for _, k := range n.Kids {
			st := copyState(m.state)
			m.pushScope()
			kok, kend, kv := m.eval(k, o)
			m.popScope()
			if kok {
				return true, kend, kv
			}
			m.state = st
		}
		return false, o, nil
	case Opt:
		m.pushScope()
		kok, kend, kv := m.eval(n.Kids[0], o)
		m.popScope()
		if kok {
			return true, kend, kv
		}
		return true, o, nil
	case Star, Plus:
		var vals []any
		q := o
		for {
			m.pushScope()
			kok, kend, kv := m.eval(n.Kids[0], q)
			m.popScope()
			if !kok {
				break
			}
			vals = append(vals, kv)
			q = kend
		}
		if n.Kind == Plus && len(vals) == 0 {
			return false, o, nil
		}
		return true, q, vals
	case And, Not:
		st := copyState(m.state)
		m.pushScope()
		if n.Kind == Not {
			m.parity++
		}
		kok, _, _ := m.eval(n.Kids[0], o)
		if n.Kind == Not {
			m.parity--
		}
		m.popScope()
		m.state = st
		if n.Kind == Not {
			return !kok, o, nil
		}
		return kok, o, nil
	case Label:
		m.pushScope()
		kok, kend, kv := m.eval(n.Kids[0], o)
		m.popScope()
		if kok {
			m.scopes[len(m.scopes)-1][n.Val] = kv
		}
		return kok, kend, kv
	case Ref:
		return m.evalRule(n.Val, o)
	case Act:
		kok, kend, _ := m.eval(n.Kids[0], o)
		if !kok {
			return false, o, nil
		}
		st := copyState(m.state)
		val, _, err := m.runBlock(n.Block, string(m.in[o:kend]), o, kend)
		m.state = st
		if err != "" {
			m.addErr(o, err)
		}
		return true, kend, val
	case AndCode, NotCode:
		st := copyState(m.state)
		_, b, err := m.runBlock(n.Block, "", o, o)
		m.state = st
		if err != "" {
			m.addErr(o, err)
		}
		if n.Kind == NotCode {
			b = !b
		}
		return b, o, nil
	case State:
		_, _, err := m.runBlock(n.Block, "", o, o)
		if err != "" {
			m.addErr(o, err)
		}
		return true, o, nil
	case Recover:
		m.hs = append(m.hs, handler{labels: n.Labels, expr: n.Kids[1]})
		kok, kend, kv := m.eval(n.Kids[0], o)
		m.hs = m.hs[:len(m.hs)-1]
		return kok, kend, kv
	case Throw:
		for i := len(m.hs) - 1; i >= 0; i-- {
			h := m.hs[i]
			listed := false
			for _, l := range h.labels {
				if l == n.Val {
					listed = true
				}
			}
			if !listed {
				continue
			}
			kok, kend, kv := m.eval(h.expr, o)
			if kok {
				return true, kend, kv
			}
		}
		return false, o, nil
	}
	panic("refpeg: unknown node kind")
}

func (m *M) evalRule(name string, o int) (bool, int, any) {
	r := m.rule(name)
	if r == nil {
		panic("refpeg: undefined rule " + name)
	}
	disp := r.Name
	if r.Display != "" {
		disp = r.Display
	}
	if r.LR {
		if b, ok := m.lrVal[name]; ok && b.off == o {
			// the recursive reference inside the growing rule
			return b.ok, b.end, b.val
		}
		return m.evalLR(r, disp, o)
	}
	m.rules = append(m.rules, disp)
	m.pushScope()
	ok, end, v := m.eval(r.Expr, o)
	m.popScope()
	m.rules = m.rules[:len(m.rules)-1]
	return ok, end, v
}

// evalLR evaluates A <- A a1 / ... / A an / b1 / ... / bm by its iterative
// definition: the b-alternatives once, then greedily the a-alternatives with
// the recursive reference standing for the result so far. The last,
// non-extending attempt leaves no error and no state change.
func (m *M) evalLR(r *Rule, disp string, o int) (bool, int, any) {
	outer, had := m.lrVal[r.Name]
	defer func() {
		if had {
			m.lrVal[r.Name] = outer
		} else {
			delete(m.lrVal, r.Name)
		}
	}()
	// seed: the recursive reference fails
	m.lrVal[r.Name] = lrBinding{off: o, ok: false}
	st0 := copyState(m.state)
	ne0 := len(m.errs)
	m.rules = append(m.rules, disp)
	m.pushScope()
	ok, end, v := m.eval(r.Expr, o)
	m.popScope()
	m.rules = m.rules[:len(m.rules)-1]
	if !ok {
		// a failing seed is itself the final, non-extending attempt: it leaves
		// no error (block errors, invalid-encoding reports) and no state change
		m.state = st0
		m.errs = m.errs[:ne0]
		return false, o, nil
	}
	for {
		st := copyState(m.state)
		ne := len(m.errs)
		m.lrVal[r.Name] = lrBinding{off: o, ok: true, end: end, val: v}
		m.rules = append(m.rules, disp)
		m.pushScope()
		ok2, end2, v2 := m.eval(r.Expr, o)
		m.popScope()
		m.rules = m.rules[:len(m.rules)-1]
		if !ok2 || end2 <= end {
			m.state = st
			m.errs = m.errs[:ne]
			break
		}
		end, v = end2, v2
	}
	return true, end, v
}

func dedupe(in []string) []string {
	var out []string
	for _, s := range in {
		dup := false
		for _, t := range out {
			if s == t {
				dup = true
			}
		}
		if !dup {
			out = append(out, s)
		}
	}
	return out
}

// Run evaluates rule `entry` (first rule if empty) on in.
func Run(g *Grammar, entry string, in []byte, cfg Config) (res Result) {
	m := &M{g: g, in: in, cfg: cfg, state: map[string]int{}, global: map[string]int{}, lrVal: map[string]lrBinding{}}
	for k, v := range cfg.InitState {
		m.state[k] = v
	}
	if entry == "" {
		entry = g.Rules[0].Name
	}
	finish := func() {
		res.Trace = m.trace
		res.State = m.state
		res.Global = m.global
		res.Errs = dedupe(m.errs)
		res.Evals = m.steps
	}
	defer func() {
		if p := recover(); p != nil {
			ps, ok := p.(panicSignal)
			if !ok {
				panic(p)
			}
			res = Result{Panicked: true, PanicMsg: ps.msg}
			if cfg.Recover {
				// the panic becomes the final error, at the position reached
				m.addErr(m.panicAt, ps.msg)
				finish()
			}
		}
	}()
	m.visit(0)
	ok, end, v := m.evalRule(entry, 0)
	res.OK, res.End, res.Val = ok, end, v
	if !ok {
		res.Val = nil
		if len(m.errs) == 0 {
			exp := dedupe(m.failS)
			eof := false
			var rest []string
			for _, e := range exp {
				if e == "!." {
					eof = true
				} else {
					rest = append(rest, e)
				}
			}
			sort.Strings(rest)
			if eof {
				rest = append(rest, "EOF")
			}
			res.FailOff = m.failO
			res.Expected = rest
			res.NoMatch = true
			msg := "no match found, expected: "
			switch len(rest) {
			case 0:
			case 1:
				msg += rest[0]
			default:
				for i, e := range rest[:len(rest)-1] {
					if i > 0 {
						msg += ", "
					}
					msg += e
				}
				msg += " or " + rest[len(rest)-1]
			}
			// the no-match error carries no rule prefix (the rule stack is empty)
			m.addErr(m.failO, msg)
		}
	}
	finish()
	return res
}

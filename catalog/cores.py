"""Systematic catalogue of small grammars ("pair-core" and friends)."""
import copy, random
from gspec import *

# terminals: name -> constructor
def terminals():
    return [
        ("la", lambda: lit("a")),
        ("lab", lambda: lit("ab")),
        ("lAi", lambda: lit("A", i=True)),
        ("cab", lambda: cls(ranges=[("a", "b")])),
        ("cna", lambda: cls(chars="a", inv=True)),
        ("any", lambda: any_()),
    ]

def unaries():
    return [
        ("star", lambda x: star(x)),
        ("plus", lambda x: plus(x)),
        ("opt", lambda x: opt(x)),
        ("and", lambda x: and_(x)),
        ("not", lambda x: not_(x)),
        ("lbl", lambda x: label("q", x)),
        ("act", lambda x: act(x, b_rec())),
        ("txt", lambda x: act(x, b_text())),
    ]

def binaries():
    return [
        ("seq", lambda x, y: seq(x, y)),
        ("cho", lambda x, y: choice(x, y)),
    ]


def wrap(name, core, tags=()):
    """Context that makes backtracking and the consumed prefix observable:
    S <- x:X 'c' {rec} / y:X 'd' {rec} / z:('a'*) {rec};  X <- core"""
    rules = [
        rule("S", choice(
            act(seq(label("x", ref("X")), lit("c")), b_rec("s1")),
            act(seq(label("y", ref("X")), lit("d")), b_rec("s2")),
            act(label("z", star(lit("a"))), b_rec("s3")))),
        rule("X", core),
    ]
    return grammar(name, rules, tags=list(tags))


def pair_core():
    out = []
    T = terminals()
    # unary over terminal
    for un, u in unaries():
        for tn, t in T:
            if un in ("star", "plus") and False:
                continue
            out.append(wrap("u_%s_%s" % (un, tn), u(t())))
    # unary over unary over 'a'-ish terminal (outer kind x inner kind)
    for un, u in unaries():
        for vn, v in unaries():
            inner = v(lit("a"))
            # nullable repetition bodies are outside the claim (non-terminating by definition)
            if un in ("star", "plus") and vn in ("star", "opt", "and", "not"):
                continue
            out.append(wrap("uu_%s_%s" % (un, vn), u(inner)))
    # binary over terminals
    for bn, b in binaries():
        for (tn, t), (sn, s) in [(T[0], T[3]), (T[1], T[0]), (T[3], T[4]), (T[2], T[5]), (T[4], T[1]), (T[0], T[0])]:
            out.append(wrap("b_%s_%s_%s" % (bn, tn, sn), b(t(), s())))
    # unary over binary, binary over unary
    for un, u in unaries():
        for bn, b in binaries():
            out.append(wrap("ub_%s_%s" % (un, bn), u(b(lit("a"), cls(ranges=[("a", "b")])))))
    for bn, b in binaries():
        for un, u in unaries():
            if un in ("and", "not", "opt", "star"):
                x = b(u(lit("a")), lit("ab"))
            else:
                x = b(u(lit("a")), lit("b"))
            out.append(wrap("bu_%s_%s" % (bn, un), x))
    return out


def composites():
    """Hand-written composites: predicates in repetition in choice, nested !&,
    case-insensitive multi-rune literals, classes with ranges/Unicode classes."""
    out = []
    out.append(grammar("c_predrep", [
        rule("S", act(seq(label("x", star(choice(seq(and_(lit("a")), any_()), seq(not_(lit("b")), cls(ranges=[("b", "d")]))))), not_(any_())), b_rec("s"))),
    ]))
    out.append(grammar("c_notand", [
        rule("S", act(seq(not_(and_(lit("ab"))), label("x", plus(cls(chars="ab")))), b_rec("s"))),
    ]))
    out.append(grammar("c_icase", [
        rule("S", choice(act(seq(label("x", lit("aB", i=True)), label("y", opt(lit("é", i=True)))), b_rec("s1")),
                         act(label("z", plus(cls(ranges=[("a", "c")], i=True))), b_rec("s2")))),
    ]))
    out.append(grammar("c_uclass", [
        rule("S", act(seq(label("x", plus(cls(classes=["L"]))), label("y", star(cls(classes=["Nd"], chars="-")))), b_rec("s"))),
    ], alphabet_extra="1-"))
    out.append(grammar("c_multirule", [
        rule("S", act(seq(label("a", ref("A")), label("b", opt(ref("B"))), label("e", ref("A"))), b_rec("s"))),
        rule("A", choice(act(lit("ab"), b_text()), act(lit("a"), b_const("A2")))),
        rule("B", act(seq(lit("b"), not_(lit("b"))), b_rec("bb"))),
    ]))
    out.append(grammar("c_labels", [
        rule("S", act(seq(label("a", lit("a")), label("b", choice(seq(label("a", lit("b")), act(label("e", lit("c")), b_rec("in"))), lit("b"))), label("d", opt(any_()))), b_rec("s"))),
    ]))
    out.append(grammar("c_invcls", [
        rule("S", act(seq(label("x", star(cls(chars="a\n", inv=True))), label("y", opt(lit("\n")))), b_rec("s"))),
    ]))
    out.append(grammar("c_deepchoice", [
        rule("S", act(label("x", choice(seq(lit("a"), choice(seq(lit("b"), lit("c")), lit("b"))), seq(lit("a"), lit("b"), lit("d")), lit("a"))), b_rec("s"))),
    ]))
    out.append(grammar("c_plusstar", [
        rule("S", act(seq(label("x", plus(seq(lit("a"), star(lit("b"))))), label("y", star(choice(lit("c"), lit("d"))))), b_rec("s"))),
    ]))
    out.append(grammar("c_display", [
        rule("S", act(seq(label("x", ref("Id")), lit("c")), b_rec("s")), display="start"),
        rule("Id", act(plus(cls(ranges=[("a", "b")])), b_text()), display="identifier"),
    ]))
    return out


def all_c01():
    return pair_core() + composites()


# ------------------------------------------------------------------ C15: character classes

def class_catalogue():
    """Classes covering every combination of char / range / \\p / ^ / i and the
    case boundaries @A Z[ `a z{, Kelvin sign, long s, dotted I."""
    out = []
    specs = [
        # (name, chars, ranges, classes)
        ("a", "a", [], []),
        ("upz", "Z", [], []),
        ("abc", "abc", [], []),
        ("k", "k", [], []),
        ("kelvin", "K", [], []),
        ("longs", "ſ", [], []),
        ("doti", "İ", [], []),
        ("eacute", "é", [], []),
        ("us", "_", [], []),
        ("r_ac", "", [("a", "c")], []),
        ("r_upAC", "", [("A", "C")], []),
        ("r_upZa", "", [("Z", "a")], []),
        ("r_upAz", "", [("A", "z")], []),
        ("r_09", "", [("0", "9")], []),
        ("r_atbr", "", [("@", "[")], []),
        ("r_btbr", "", [("`", "{")], []),
        ("r_eu", "", [("é", "ü")], []),
        ("r_zKel", "", [("z", "K")], []),
        ("p_L", "", [], ["L"]),
        ("p_Lu", "", [], ["Lu"]),
        ("p_Nd", "", [], ["Nd"]),
        ("p_Latin", "", [], ["Latin"]),
        ("mix1", "_", [("a", "f"), ("0", "9")], []),
        ("mix2", "x", [("A", "F")], ["Nd"]),
    ]
    for name, chars, ranges, classes in specs:
        for inv in (False, True):
            for ic in (False, True):
                n = "k_%s%s%s" % (name, "_inv" if inv else "", "_i" if ic else "")
                c = lambda: cls(chars=chars, ranges=ranges, classes=classes, inv=inv, i=ic)
                g = grammar(n, [rule("S", act(seq(label("x", star(c())), label("y", opt(any_()))), b_rec("s")))], tags=[])
                tags = []
                if ic:
                    for lo, hi in ranges:
                        if lo.lower() > hi.lower() or (lo.isupper() != hi.isupper()) or ord(hi) > 127:
                            tags.append("icase-range-straddle")
                    for ch in chars:
                        if ord(ch) > 127 and ord(ch.lower()[0]) < 128:
                            tags.append("icase-nonascii-folds-to-ascii")
                        if ord(ch) < 128 and not ch.isalpha():
                            pass
                g["tags"] = sorted(set(tags))
                out.append(g)
    return out

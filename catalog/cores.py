"""Systematic catalogue of small grammars ("pair-core" and friends)."""
import copy, random
from gspec import *

# terminals: name -> constructor
def terminals():
    return [
        ("la", lambda: lit("a")),
        ("lab", lambda: lit("ab")),
        ("lAi", lambda: lit("A", i=True)),
        ("cab", lambda: cls(ranges=[("a", "b")])),
        ("cna", lambda: cls(chars="a", inv=True)),
        ("any", lambda: any_()),
    ]

def unaries():
    return [
        ("star", lambda x: star(x)),
        ("plus", lambda x: plus(x)),
        ("opt", lambda x: opt(x)),
        ("and", lambda x: and_(x)),
        ("not", lambda x: not_(x)),
        ("lbl", lambda x: label("q", x)),
        ("act", lambda x: act(x, b_rec())),
        ("txt", lambda x: act(x, b_text())),
    ]

def binaries():
    return [
        ("seq", lambda x, y: seq(x, y)),
        ("cho", lambda x, y: choice(x, y)),
    ]


def wrap(name, core, tags=()):
    """Context that makes backtracking and the consumed prefix observable:
    S <- x:X 'c' {rec} / y:X 'd' {rec} / z:('a'*) {rec};  X <- core"""
    rules = [
        rule("S", choice(
            act(seq(label("x", ref("X")), lit("c")), b_rec("s1")),
            act(seq(label("y", ref("X")), lit("d")), b_rec("s2")),
            act(label("z", star(lit("a"))), b_rec("s3")))),
        rule("X", core),
    ]
    return grammar(name, rules, tags=list(tags))


def pair_core():
    out = []
    T = terminals()
    # unary over terminal
    for un, u in unaries():
        for tn, t in T:
            if un in ("star", "plus") and False:
                continue
            out.append(wrap("u_%s_%s" % (un, tn), u(t())))
    # unary over unary over 'a'-ish terminal (outer kind x inner kind)
    for un, u in unaries():
        for vn, v in unaries():
            inner = v(lit("a"))
            # nullable repetition bodies are outside the claim (non-terminating by definition)
            if un in ("star", "plus") and vn in ("star", "opt", "and", "not"):
                continue
            out.append(wrap("uu_%s_%s" % (un, vn), u(inner)))
    # binary over terminals
    for bn, b in binaries():
        for (tn, t), (sn, s) in [(T[0], T[3]), (T[1], T[0]), (T[3], T[4]), (T[2], T[5]), (T[4], T[1]), (T[0], T[0])]:
            out.append(wrap("b_%s_%s_%s" % (bn, tn, sn), b(t(), s())))
    # unary over binary, binary over unary
    for un, u in unaries():
        for bn, b in binaries():
            out.append(wrap("ub_%s_%s" % (un, bn), u(b(lit("a"), cls(ranges=[("a", "b")])))))
    for bn, b in binaries():
        for un, u in unaries():
            if un in ("and", "not", "opt", "star"):
                x = b(u(lit("a")), lit("ab"))
            else:
                x = b(u(lit("a")), lit("b"))
            out.append(wrap("bu_%s_%s" % (bn, un), x))
    return out


def memo_catalogue():
    """Shapes in which the same expression node is reached at the same offset through different paths."""
    out = []
    def g(name, rules, **kw):
        out.append(grammar("mm_" + name, rules, **kw))
    # a labelled expression inside a rule that is entered twice so that the label's operand is answered from the memo
    g("label", [rule("S", choice(act(seq(label("v", ref("T")), lit("x")), b_rec("s1")), act(seq(any_(), label("v", ref("T")), lit("y")), b_rec("s2")), act(star(any_()), b_rec("s3")))),
                rule("T", act(seq(star(ref("A")), label("l", ref("B"))), b_rec("t"))),
                rule("A", lit("a")), rule("B", lit("b"))], tags=["memo-label"])
    # nested backtracking over a shared failing rule
    g("nested", [rule("S", act(seq(label("e", ref("E")), not_(any_())), b_rec("s"))),
                 rule("E", choice(seq(ref("T"), lit("+"), ref("E")), seq(ref("T"), lit("-"), ref("E")), ref("T"))),
                 rule("T", choice(seq(lit("("), ref("E"), lit(")")), cls(ranges=[("0", "1")])))])
    g("pred", [rule("S", act(seq(and_(ref("W")), not_(seq(ref("W"), lit("!"))), label("w", ref("W")), opt(lit("?"))), b_rec("s"))),
               rule("W", plus(cls(ranges=[("a", "b")])))])
    return out


def composites():
    """Hand-written composites: predicates in repetition in choice, nested !&,
    case-insensitive multi-rune literals, classes with ranges/Unicode classes."""
    out = []
    out.append(grammar("c_predrep", [
        rule("S", act(seq(label("x", star(choice(seq(and_(lit("a")), any_()), seq(not_(lit("b")), cls(ranges=[("b", "d")]))))), not_(any_())), b_rec("s"))),
    ]))
    out.append(grammar("c_notand", [
        rule("S", act(seq(not_(and_(lit("ab"))), label("x", plus(cls(chars="ab")))), b_rec("s"))),
    ]))
    out.append(grammar("c_icase", [
        rule("S", choice(act(seq(label("x", lit("aB", i=True)), label("y", opt(lit("é", i=True)))), b_rec("s1")),
                         act(label("z", plus(cls(ranges=[("a", "c")], i=True))), b_rec("s2")))),
    ]))
    out.append(grammar("c_uclass", [
        rule("S", act(seq(label("x", plus(cls(classes=["L"]))), label("y", star(cls(classes=["Nd"], chars="-")))), b_rec("s"))),
    ], alphabet_extra="1-"))
    out.append(grammar("c_uclass2", [
        rule("S", act(seq(label("x", plus(cls(chars="_-", classes=["L"]))), label("y", star(cls(chars="+-", classes=["Nd"], i=True)))), b_rec("s"))),
    ], alphabet_extra="1_-+"))
    out.append(grammar("c_multirule", [
        rule("S", act(seq(label("a", ref("A")), label("b", opt(ref("B"))), label("e", ref("A"))), b_rec("s"))),
        rule("A", choice(act(lit("ab"), b_text()), act(lit("a"), b_const("A2")))),
        rule("B", act(seq(lit("b"), not_(lit("b"))), b_rec("bb"))),
    ]))
    out.append(grammar("c_labels", [
        rule("S", act(seq(label("a", lit("a")), label("b", choice(seq(label("a", lit("b")), act(label("e", lit("c")), b_rec("in"))), lit("b"))), label("d", opt(any_()))), b_rec("s"))),
    ]))
    out.append(grammar("c_invcls", [
        rule("S", act(seq(label("x", star(cls(chars="a\n", inv=True))), label("y", opt(lit("\n")))), b_rec("s"))),
    ]))
    out.append(grammar("c_deepchoice", [
        rule("S", act(label("x", choice(seq(lit("a"), choice(seq(lit("b"), lit("c")), lit("b"))), seq(lit("a"), lit("b"), lit("d")), lit("a"))), b_rec("s"))),
    ]))
    out.append(grammar("c_plusstar", [
        rule("S", act(seq(label("x", plus(seq(lit("a"), star(lit("b"))))), label("y", star(choice(lit("c"), lit("d"))))), b_rec("s"))),
    ]))
    out.append(grammar("c_icase2", [
        rule("S", choice(act(seq(label("x", lit("a1*", i=True)), label("y", star(cls(chars=" )", ranges=[("0", "9")], i=True)))), b_rec("s1")),
                         act(seq(label("z", lit("@\n", i=True)), opt(any_())), b_rec("s2")),
                         act(label("w", star(cls(chars="\t_", inv=True, i=True))), b_rec("s3")))),
    ], alphabet_extra="\t\x10\x11\x19\x0a*)1 `@"))
    out.append(grammar("c_longclass", [
        rule("S", act(seq(label("x", cls(chars="abcdefghijk\u00e9")), label("y", opt(cls(chars="lmnopqrstu", ranges=[("0", "9")], i=True)))), b_rec("s"))),
    ], alphabet_extra="0"))
    # a right-recursive rule that starts with a class containing U+FFFD (the rune an end of input is read as)
    out.append(grammar("c_rrfffd", [
        rule("S", act(seq(label("x", ref("Chars")), not_(any_())), b_rec("s"))),
        rule("Chars", choice(seq(ref("Char"), ref("Chars")), lit(""))),
        rule("Char", cls(chars="ab\ufffd")),
    ]))
    # the same case-insensitive literal in three spellings (equal once lower-cased; the spelling shows in messages)
    out.append(grammar("c_icase3", [
        rule("S", act(seq(label("x", choice(seq(lit("ab", i=True), lit("c")), seq(lit("AB", i=True), lit("d")), seq(lit("aB", i=True), lit("e")))), not_(any_())), b_rec("s"))),
    ]))
    out.append(grammar("c_display", [
        rule("S", act(seq(label("x", ref("Id")), lit("c")), b_rec("s")), display="start"),
        rule("Id", act(plus(cls(ranges=[("a", "b")])), b_text()), display="identifier"),
    ]))
    return out


def all_c01():
    return pair_core() + composites()


# ------------------------------------------------------------------ C15: character classes

def class_catalogue():
    """Classes covering every combination of char / range / \\p / ^ / i and the
    case boundaries @A Z[ `a z{, Kelvin sign, long s, dotted I."""
    out = []
    specs = [
        # (name, chars, ranges, classes)
        ("a", "a", [], []),
        ("upz", "Z", [], []),
        ("abc", "abc", [], []),
        ("k", "k", [], []),
        ("kelvin", "K", [], []),
        ("longs", "ſ", [], []),
        ("doti", "İ", [], []),
        ("eacute", "é", [], []),
        ("us", "_", [], []),
        ("r_ac", "", [("a", "c")], []),
        ("r_upAC", "", [("A", "C")], []),
        ("r_upZa", "", [("Z", "a")], []),
        ("r_upAz", "", [("A", "z")], []),
        ("r_09", "", [("0", "9")], []),
        ("r_atbr", "", [("@", "[")], []),
        ("r_btbr", "", [("`", "{")], []),
        ("r_eu", "", [("é", "ü")], []),
        ("r_zKel", "", [("z", "K")], []),
        ("p_L", "", [], ["L"]),
        ("p_Lu", "", [], ["Lu"]),
        ("p_Nd", "", [], ["Nd"]),
        ("p_Latin", "", [], ["Latin"]),
        ("r_del", "", [("\x7f", "\x9f")], []),
        ("r_ctl", "", [("\x00", "\x1f"), ("\x7f", "\xff")], []),
        ("r_tilde", "", [("~", "\x80")], []),
        ("del", "\x7f\x00", [], []),
        ("r_7e7f", "", [("~", "\x7f")], []),
        ("mix1", "_", [("a", "f"), ("0", "9")], []),
        ("mix2", "x", [("A", "F")], ["Nd"]),
    ]
    for name, chars, ranges, classes in specs:
        for inv in (False, True):
            for ic in (False, True):
                n = "k_%s%s%s" % (name, "_inv" if inv else "", "_i" if ic else "")
                c = lambda: cls(chars=chars, ranges=ranges, classes=classes, inv=inv, i=ic)
                g = grammar(n, [rule("S", act(seq(label("x", star(c())), label("y", opt(any_()))), b_rec("s")))], tags=[])
                tags = []
                if ic:
                    for lo, hi in ranges:
                        if lo.lower() > hi.lower() or (lo.isupper() != hi.isupper()) or ord(hi) > 127:
                            tags.append("icase-range-straddle")
                    for ch in chars:
                        if ord(ch) > 127 and ord(ch.lower()[0]) < 128:
                            tags.append("icase-nonascii-folds-to-ascii")
                        if ord(ch) < 128 and not ch.isalpha():
                            pass
                g["tags"] = sorted(set(tags))
                out.append(g)
    return out


# ------------------------------------------------------------------ C05: state store

def state_catalogue():
    out = []
    def obs(key="k", m=0):
        return andcode(p_state(key, m))
    def g(name, x, extra_rules=(), tags=()):
        # S tries X then 'c'; on failure X then 'd'; then observes the store
        rules = [rule("S", choice(
            act(seq(x(), lit("c"), obs("k", 0)), b_rec("s1")),
            act(seq(x(), lit("d"), obs("k", 1)), b_rec("s2")),
            act(seq(star(cls(ranges=[("a", "d")])), choice(obs("k", 0), obs("k", 1))), b_rec("s3"))))]
        rules += list(extra_rules)
        out.append(grammar("st_" + name, rules, tags=list(tags)))
    inc = lambda: state(s_inc("k"))
    box = lambda: state(s_box("k"))
    for nm, st in (("inc", inc), ("box", box)):
        g(nm + "_first", lambda: seq(st(), lit("a"), lit("b")))
        g(nm + "_mid", lambda: seq(lit("a"), st(), lit("b")))
        g(nm + "_last", lambda: seq(lit("a"), lit("b"), st()))
        g(nm + "_star", lambda: star(seq(lit("a"), st())))
        g(nm + "_star2", lambda: star(seq(st(), lit("a"))))
        g(nm + "_plus", lambda: plus(seq(st(), lit("a"), opt(lit("b")))))
        g(nm + "_opt", lambda: opt(seq(lit("a"), st(), lit("b"))))
        g(nm + "_and", lambda: seq(and_(seq(lit("a"), st())), lit("a")))
        g(nm + "_not", lambda: seq(not_(seq(lit("a"), st(), lit("b"))), lit("a")))
        g(nm + "_cho", lambda: choice(seq(st(), lit("a"), lit("b")), seq(st(), st(), lit("a"))))
        g(nm + "_nest", lambda: seq(st(), choice(seq(lit("a"), st(), lit("b")), lit("a")), st()))
        g(nm + "_rule", lambda: seq(ref("Y"), lit("b")), extra_rules=[rule("Y", seq(lit("a"), st()))])
        g(nm + "_lbl", lambda: seq(label("q", seq(lit("a"), st())), lit("b")))
    g("set", lambda: seq(state(s_set("k", 3)), lit("a"), state(s_inc("k"))))
    g("amut", lambda: seq(act(lit("a"), b_amut("k")), state(s_inc("k")), lit("b")))
    g("pmut", lambda: seq(andcode(p_mut("k")), lit("a"), state(s_inc("k"))))
    g("nmut", lambda: seq(notcode({"bk": "PConst", "tag": "pn", "args": [], "val": 0}), state(s_inc("k")), lit("a")))
    g("twokeys", lambda: seq(state(s_inc("k")), lit("a"), state(s_inc("j")), andcode(p_state("j", 1)), lit("b")))
    g("ginc", lambda: seq(act(lit("a"), b_ginc("gk")), state(s_inc("k")), lit("b")))
    g("actstate", lambda: act(seq(lit("a"), state(s_inc("k"))), b_rec("inner")))
    g("nested_rep", lambda: star(seq(ref("Y"), lit("b"))), extra_rules=[rule("Y", seq(state(s_inc("k")), cls(ranges=[("a", "b")])))])
    g("nested_opt", lambda: seq(opt(seq(act(seq(state(s_inc("k")), lit("a")), b_rec("in")), lit("b"))), opt(lit("a"))))
    g("nested_plus", lambda: seq(plus(seq(label("q", seq(state(s_inc("k")), lit("a"))), opt(lit("b")))), star(seq(label("q", ref("Y")), lit("b")))), extra_rules=[rule("Y", seq(state(s_inc("k")), lit("a")))])
    # mutually recursive rules, the state block in one of them, a sequence that reaches it only through the
    # other one and then fails (absorbed by ?): both reference orders
    blk = lambda: rule("Blk", seq(lit("a"), ref("Body"), lit("b"), state(s_inc("k"))))
    body = lambda: rule("Body", star(choice(ref("Blk"), lit("c"))))
    par = lambda: rule("Par", seq(lit("d"), ref("Body"), lit("d")))
    g("mutrec1", lambda: seq(star(ref("Blk")), opt(ref("Par")), star(cls(chars="abd"))), extra_rules=[par(), blk(), body()])
    g("mutrec2", lambda: seq(opt(ref("Par")), star(ref("Blk")), star(cls(chars="abd"))), extra_rules=[blk(), par(), body()])
    g("mutrec3", lambda: seq(opt(seq(lit("d"), ref("Body"), lit("d"))), star(ref("Blk")), star(cls(chars="abd"))), extra_rules=[body(), blk()])
    # keys that do not exist when the parse starts: a key first written inside a
    # region that is rolled back must be absent (zero) afterwards
    def gf(name, x):
        rules = [rule("S", choice(
            act(seq(x(), lit("c"), andcode(p_state("j", 1))), b_rec("s1")),
            act(seq(x(), lit("d"), andcode(p_state("j", 0))), b_rec("s2")),
            act(seq(star(cls(ranges=[("a", "d")])), choice(andcode(p_state("j", 0)), andcode(p_state("j", 1)))), b_rec("s3"))))]
        out.append(grammar("st_fresh_" + name, rules, noinit_keys=["j"]))
    incj = lambda: state(s_inc("j"))
    gf("seq", lambda: seq(incj(), lit("a"), lit("b")))
    gf("cho", lambda: choice(seq(incj(), lit("a"), lit("b")), seq(lit("a"), opt(lit("b")))))
    gf("and", lambda: seq(and_(seq(lit("a"), incj())), lit("a")))
    gf("not", lambda: seq(not_(seq(incj(), lit("b"))), lit("a")))
    gf("star", lambda: star(seq(incj(), lit("a"), lit("b"))))
    gf("act", lambda: seq(act(lit("a"), b_amut("j")), opt(lit("b")), incj()))
    gf("pred", lambda: seq(andcode(p_mut("j")), lit("a"), incj()))
    # labelled failures and the store: a throw whose recovery expressions fail (one, two nested ones for the same label,
    # the second one succeeding) restores the store of the throw position each time; the failure of the throw is
    # absorbed by ? / * directly, so no enclosing sequence or choice repairs the store afterwards
    rcv = lambda inner, outer: recover(recover(throw("l1"), ["l1"], inner), ["l1"], outer)
    g("throw_2fail", lambda: seq(inc(), opt(rcv(lit("b"), lit("b"))), opt(lit("a"))))
    g("throw_2fail_st", lambda: seq(inc(), star(rcv(seq(inc(), lit("b")), seq(inc(), inc(), lit("b")))), opt(lit("a")), inc()))
    g("throw_1fail", lambda: seq(inc(), opt(rcv(seq(inc(), lit("b")), seq(inc(), opt(lit("b"))))), opt(lit("a"))))
    return out


def state_lr_catalogue():
    """Left-recursive rules with state blocks (C05 under -support-left-recursion): in the base alternative (also one
    that matches the empty string), in the recursive alternative before and after the recursive reference's
    operand, and in a helper rule the recursion passes through. S observes the store after E."""
    out = []
    inc = lambda: state(s_inc("k"))
    obs = lambda m: andcode(p_state("k", m))
    def g(name, e_alts, extra=(), twice=False):
        if twice:
            # E is evaluated a second time at the same offset after the first alternative of S has failed
            s_body = choice(act(seq(label("e", ref("E")), obs(0), label("r", opt(any_()))), b_rec("even")),
                            act(seq(label("e", ref("E")), obs(1), label("r", opt(any_()))), b_rec("odd")))
        else:
            s_body = act(seq(label("e", ref("E")), label("p", choice(act(obs(0), b_const("even")), act(obs(1), b_const("odd")))), label("r", opt(any_()))), b_rec("s"))
        rules = [rule("S", s_body), rule("E", choice(*e_alts), lr=True)] + list(extra)
        out.append(grammar("stlr_" + name, rules, needs_lr=True))
    add = lambda *items: act(seq(label("l", ref("E")), *items), b_rec("add"))
    g("emptybase", [add(lit("a"), inc()), inc()])
    g("base", [add(lit("a")), seq(inc(), lit("b"))])
    g("alt", [add(inc(), lit("a")), lit("b")])
    g("altfail", [add(lit("a"), inc(), lit("c")), lit("b")])
    g("both", [add(lit("a"), inc()), seq(lit("b"), inc()), inc()])
    g("helper", [ref("Zh"), lit("b")], extra=[rule("Zh", act(seq(inc(), label("l", ref("E")), lit("a")), b_rec("step")))])
    # (the helper's name sorts after E: E is the leader, as the reference assumes; with a helper that sorts first the
    # helper would grow the seed and the blocks of discarded attempts would observe other intermediate stores)
    g("helper2", [ref("Zk"), seq(inc(), lit("b"))], extra=[rule("Zk", act(seq(label("l", ref("E")), lit("a"), inc()), b_rec("step")))])
    out.append(grammar("stlr_prefix", [
        rule("S", act(seq(label("v", choice(seq(lit("a"), inc(), ref("E"), lit("x")), seq(cls(ranges=[("a", "b")]), inc(), inc(), ref("E"), lit("y")))),
                          label("p", choice(act(obs(0), b_const("even")), act(obs(1), b_const("odd"))))), b_rec("s"))),
        # (E has no traced block: a leader answered from its memo entry does not run pure actions again, which C05 does not ask for)
        rule("E", choice(act(seq(ref("E"), lit("+"), cls(ranges=[("0", "1")])), b_text()), cls(ranges=[("0", "1")])), lr=True)], needs_lr=True))
    # finding F21: the second evaluation of a left-recursive rule at one offset is answered from the leader's memo entry
    g("twice", [add(inc(), lit("a")), lit("b")], twice=True)
    return out


# ------------------------------------------------------------------ C14: throw / recover

def throw_catalogue():
    out = []
    def g(name, rules, tags=()):
        out.append(grammar("tr_" + name, rules, tags=list(tags)))
    rec = lambda tag: b_rec(tag)
    # basic: throw inside guarded sequence; recovery consumes
    g("basic", [rule("S", act(label("x", recover(seq(lit("a"), choice(lit("b"), throw("l1"))), ["l1"], act(cls(ranges=[("c", "d")]), rec("r1")))), rec("s")))])
    # throw without handler: plain failure, backtracking resumes
    g("nohandler", [rule("S", choice(act(seq(lit("a"), throw("l1")), rec("s1")), act(seq(lit("a"), any_()), rec("s2"))))])
    # two labels, one handler each
    g("twolabels", [rule("S", act(label("x", recover(recover(seq(lit("a"), choice(lit("b"), throw("l1")), choice(lit("c"), throw("l2"))), ["l1"], act(lit("d"), rec("r1"))), ["l2"], act(lit("d"), rec("r2")))), rec("s")))])
    # shared label at two depths: innermost first, then outer
    g("shared", [rule("S", act(label("x", recover(seq(lit("a"), recover(seq(lit("b"), throw("l1")), ["l1"], act(lit("c"), rec("inner")))), ["l1"], act(lit("d"), rec("outer")))), rec("s")))])
    # handler listing several labels
    g("multi", [rule("S", act(label("x", recover(seq(choice(lit("a"), throw("l1")), choice(lit("b"), throw("l2"))), ["l1", "l2"], act(any_(), rec("r")))), rec("s")))])
    # throw in a called rule
    g("called", [rule("S", act(label("x", recover(seq(lit("a"), ref("T")), ["l1"], act(lit("d"), rec("r")))), rec("s"))),
                 rule("T", choice(lit("b"), throw("l1")))])
    # throw inside repetition
    g("instar", [rule("S", act(label("x", recover(star(seq(lit("a"), choice(lit("b"), throw("l1")))), ["l1"], act(lit("c"), rec("r")))), rec("s")))])
    # throw inside predicates
    g("inand", [rule("S", act(label("x", recover(seq(and_(seq(lit("a"), throw("l1"))), any_(), any_()), ["l1"], act(lit("b"), rec("r")))), rec("s")))])
    g("innot", [rule("S", act(label("x", recover(seq(not_(seq(lit("a"), throw("l1"))), any_()), ["l1"], act(lit("b"), rec("r")))), rec("s")))])
    # recovery expression that fails -> next outer
    g("recfails", [rule("S", act(label("x", recover(recover(seq(lit("a"), throw("l1")), ["l1"], lit("b")), ["l1"], act(lit("c"), rec("outer")))), rec("s")))])
    # recovery expression that throws another label
    g("recthrows", [rule("S", act(label("x", recover(recover(seq(lit("a"), throw("l1")), ["l1"], seq(lit("b"), throw("l2"))), ["l2"], act(lit("c"), rec("r2")))), rec("s")))])
    # handler left by backtracking, then same label thrown outside of it
    g("left", [rule("S", choice(act(seq(recover(seq(lit("a"), lit("b")), ["l1"], lit("z")), lit("c")), rec("s1")),
                                 act(seq(lit("a"), choice(lit("d"), throw("l1"))), rec("s2")),
                                 act(any_(), rec("s3"))))])
    # handler in force only while the guarded expression runs (throw after it)
    g("after", [rule("S", choice(act(seq(recover(lit("a"), ["l1"], act(lit("b"), rec("r"))), throw("l1")), rec("s1")), act(star(any_()), rec("s2"))))])
    # two sibling operators at the same depth listing different labels; the second guarded expression throws the first one's label
    sib_first = lambda: recover(choice(lit("a"), throw("ea")), ["ea"], act(cls(chars="xy"), rec("skipA")))
    sib_second = lambda: recover(choice(lit("b"), throw("ea")), ["eb"], act(cls(chars="xy"), rec("skipB")))
    g("siblings", [rule("S", choice(act(seq(label("p", ref("F")), label("q", ref("G"))), rec("s1")), act(star(any_()), rec("s2")))),
                   rule("F", sib_first()), rule("G", sib_second())])
    g("siblings2", [rule("S", choice(act(label("p", recover(seq(ref("F"), ref("G")), ["ea"], act(lit("y"), rec("outer")))), rec("s1")), act(star(any_()), rec("s2")))),
                    rule("F", sib_first()), rule("G", sib_second())])
    # a recursive list: the throw is reachable from Blk only through Itm (Itm -> Blk -> Itm); an outer handler in
    # the start rule and an inner one guarding the block
    g("nestedlist", [rule("S", act(label("x", recover(ref("Itm"), ["l1"], act(star(any_()), rec("gaveup")))), rec("s"))),
                     rule("Itm", choice(cls(ranges=[("a", "b")]), recover(ref("Blk"), ["l1"], act(lit(""), rec("hole"))), throw("l1"))),
                     rule("Blk", act(seq(lit("["), label("i", seq(ref("Itm"), star(seq(lit(","), ref("Itm"))))), lit("]")), rec("blk")))])
    # a choice written inline in a recovery expression, evaluated at throw sites inside two different rules
    g("rcvchoice", [rule("S", act(label("x", recover(choice(ref("Add"), ref("Del")), ["l1"], choice(act(lit("a"), rec("ra")), act(lit("d"), rec("rd"))))), rec("s"))),
                    rule("Add", seq(and_(lit("a")), throw("l1"))), rule("Del", seq(and_(lit("d")), throw("l1")))])
    # a label bound in the guarded operand is in scope of a code block of the recovery operand (one scope for both)
    g("lblshare", [rule("S", act(label("x", recover(seq(label("k", cls(ranges=[("a", "b")])), choice(lit("b"), throw("l1"))), ["l1"],
                                                    act(seq(label("j", cls(chars="cd")), opt(lit("d"))), rec("r")))), rec("s")))])
    # "skip to the next separator, then resume with the normal rule": the recovery expression consumes input and
    # can reach a throw of its own label again - its handler is still in force while it runs
    g("resume", [rule("S", act(label("x", recover(seq(label("i", ref("Itm")), label("t", ref("Tail"))), ["l1"], ref("ErrTail"))), rec("s"))),
                 rule("Itm", cls(ranges=[("a", "b")])),
                 rule("Tail", choice(not_(any_()), act(seq(lit(","), label("i", ref("Itm")), label("t", ref("Tail"))), rec("tail")), throw("l1"))),
                 rule("ErrTail", act(seq(label("g", plus(cls(chars=",", inv=True))), label("t", ref("Tail"))), rec("skipped")))])
    g("resume2", [rule("S", act(label("x", recover(star(seq(lit("a"), choice(lit("b"), throw("l1")))), ["l1"],
                                                   act(seq(lit("c"), opt(choice(lit("b"), throw("l1")))), rec("again")))), rec("s")))])
    # escalation: the guarded expression of the inner operator throws m; the handler for m sits outside and its
    # recovery expression throws l - which the inner operator lists although no throw of l is written inside it
    g("escalate", [rule("S", act(label("x", recover(recover(seq(lit("a"), choice(lit("b"), throw("l2"))), ["l1"], act(lit("r"), rec("inner"))),
                                                    ["l2"], seq(lit("g"), choice(lit("b"), throw("l1"))))), rec("s")))])
    # a labelled recovery operator whose guarded / recovery operand binds, directly (no choice, rule or predicate in
    # between), a label of the same name as an earlier label of the enclosing sequence: the labelled expression has a
    # scope of its own, the outer label keeps its value for the outer block
    g("lblshadow", [rule("S", act(seq(label("n", cls(ranges=[("a", "b")])), label("t", recover(act(seq(label("n", cls(ranges=[("c", "d")])), choice(lit("e"), throw("l1"))), rec("inner")),
                                                                                                 ["l1"], act(label("q", any_()), rec("r"))))), rec("s")))])
    g("lblshadow2", [rule("S", act(seq(label("n", lit("a")), label("t", recover(seq(label("n", lit("b")), label("m", opt(lit("c")))), ["l1"], lit("z"))), label("m", opt(any_()))), rec("s")))])
    # a failure label listed twice in one operator (accepted by the front end; it is a set)
    g("duplist", [rule("S", act(label("x", recover(seq(lit("a"), choice(lit("b"), throw("l1")), choice(lit("c"), throw("l2"))), ["l1", "l2", "l1"], act(any_(), rec("r")))), rec("s")))])
    # throw under choice alternatives with state of labels
    g("labels",[rule("S", act(seq(label("x", lit("a")), label("y", recover(choice(lit("b"), throw("l1")), ["l1"], act(label("z", any_()), rec("r"))))), rec("s")))])
    return out


# ------------------------------------------------------------------ C11: faults

def fault_catalogue():
    out = []
    def g(name, rules, slots):
        out.append(grammar("fl_" + name, rules, fault_slots=slots))
    g("seq", [rule("S", act(seq(label("x", act(lit("a"), b_fault(0, "f0"))), label("y", opt(act(lit("b"), b_fault(1, "f1"))))), b_rec("s")))], 2)
    g("choice", [rule("S", choice(act(seq(act(lit("a"), b_fault(0, "f0")), lit("c")), b_rec("s1")), act(seq(act(lit("a"), b_fault(1, "f1")), lit("d")), b_rec("s2")), act(any_(), b_fault(2, "f2"))))], 3)
    g("star", [rule("S", act(label("x", star(act(cls(ranges=[("a", "b")]), b_fault(0, "f0")))), b_rec("s")))], 1)
    g("pred", [rule("S", act(seq(andcode(p_fault(0, "pf0")), label("x", lit("a")), notcode(p_const(False, "pn")), opt(lit("b"))), b_rec("s")))], 1)
    g("display", [rule("S", act(seq(label("x", ref("Item")), opt(ref("Item"))), b_rec("s")), display="start"),
                  rule("Item", act(cls(ranges=[("a", "b")]), b_fault(0, "f0")), display="100% item %d")], 1)
    g("nested", [rule("S", act(seq(label("x", ref("A")), label("y", ref("B"))), b_fault(0, "f0"))),
                 rule("A", act(lit("a"), b_fault(1, "f1"))),
                 rule("B", choice(act(lit("b"), b_fault(2, "f2")), act(lit("a"), b_rec("b2"))))], 3)
    g("and", [rule("S", act(seq(and_(act(lit("a"), b_fault(0, "f0"))), label("x", any_()), opt(any_())), b_rec("s")))], 1)
    g("newline", [rule("S", act(seq(star(lit("\n")), label("x", act(lit("a"), b_fault(0, "f0"))), opt(lit("\n")), opt(act(lit("b"), b_fault(1, "f1")))), b_rec("s")))], 2)
    return out


def fault_lr_catalogue():
    """Left-recursive grammars with failing code blocks (C11 with -support-left-recursion): a block that returns an
    error inside a growth attempt that is abandoned runs again, at the same position, on the path that is kept."""
    out = []
    def g(name, rules, slots, inv=3):
        out.append(grammar("fl_" + name, rules, fault_slots=slots, fault_invocations=inv, needs_lr=True))
    x = lambda: rule("X", act(cls(ranges=[("a", "b")]), b_fault(0, "f0")))
    g("lr_retry", [rule("S", act(seq(label("e", ref("E")), label("k", opt(ref("Call")))), b_rec("s"))),
                   rule("E", choice(act(seq(label("l", ref("E")), label("r", ref("X")), not_(lit("("))), b_rec("app")), ref("X")), lr=True),
                   rule("Call", act(seq(label("f", ref("X")), lit("(")), b_rec("call"))), x()], 1)
    g("lr_retry2", [rule("S", act(seq(label("e", ref("E")), label("t", opt(act(seq(lit("."), ref("X")), b_fault(1, "f1"))))), b_rec("s"))),
                    rule("E", choice(act(seq(label("l", ref("E")), lit("."), label("r", ref("X")), lit("!")), b_rec("app")), ref("X")), lr=True), x()], 2)
    return out


# ------------------------------------------------------------------ C12: farthest failure

def fail_catalogue():
    out = []
    def g(name, rules):
        out.append(grammar("ff_" + name, rules))
    g("alts", [rule("S", act(seq(choice(seq(lit("a"), lit("b")), seq(lit("a"), lit("c")), lit("d")), not_(any_())), b_rec("s")))])
    g("samepos", [rule("S", act(seq(lit("a"), choice(lit("b"), cls(ranges=[("c", "d")]), seq(lit("b"), lit("b")))), b_rec("s")))])
    g("notnot", [rule("S", act(seq(not_(not_(lit("a"))), any_(), not_(lit("b")), opt(any_())), b_rec("s")))])
    g("notseq", [rule("S", act(seq(not_(seq(lit("a"), lit("b"))), any_(), any_(), not_(any_())), b_rec("s")))])
    g("andpred", [rule("S", act(seq(and_(seq(any_(), lit("b"))), lit("a"), any_(), not_(any_())), b_rec("s")))])
    g("star", [rule("S", act(seq(star(lit("a")), lit("b"), not_(any_())), b_rec("s")))])
    g("icase", [rule("S", act(seq(lit("aB", i=True), cls(chars="cd", i=True), not_(any_())), b_rec("s")))])
    g("rules", [rule("S", act(seq(ref("A"), ref("B"), not_(any_())), b_rec("s"))),
                rule("A", choice(lit("ab"), lit("a"))), rule("B", choice(lit("c"), lit("b")), display="bee")])
    g("dup", [rule("S", act(seq(choice(seq(lit("a"), lit("b")), seq(lit("a"), lit("b"), lit("c"))), lit("d")), b_rec("s")))])
    g("invcls", [rule("S", act(seq(cls(chars="a", inv=True), cls(chars="b", inv=True), not_(any_())), b_rec("s")))])
    g("newline", [rule("S", act(seq(star(lit("\n")), lit("a"), lit("\n"), lit("b")), b_rec("s")))])
    # more alternatives at one offset than the initial capacity of the expected list (20), then the parse goes on
    words = [x + y + z for x in "ab" for y in "abc" for z in "abcd"]
    g("manyalts", [rule("S", act(seq(label("w", ref("W")), lit(";"), opt(ref("W")), not_(any_())), b_rec("s"))), rule("W", choice(*[lit(w) for w in words]))])
    g("manyalts2", [rule("S", act(seq(star(seq(ref("W"), lit(" "))), lit(".")), b_rec("s"))), rule("W", choice(*[lit(w) for w in words[:22]]))])
    return out


# ------------------------------------------------------------------ C02: labels / context

def context_catalogue():
    out = []
    def g(name, rules):
        out.append(grammar("cx_" + name, rules))
    g("basic", [rule("S", act(seq(label("a", lit("a")), label("b", opt(lit("\n"))), label("d", star(cls(ranges=[("a", "b")])))), b_rec("s")))])
    g("nested", [rule("S", act(seq(label("a", act(seq(label("x", lit("a")), label("y", opt(lit("b")))), b_rec("in"))), label("b", star(act(label("z", any_()), b_rec("it"))))), b_rec("s")))])
    g("shadow", [rule("S", act(seq(label("a", lit("a")), label("b", choice(act(label("a", lit("b")), b_rec("alt1")), act(label("a", any_()), b_rec("alt2"))))), b_rec("s")))])
    g("abandoned", [rule("S", choice(act(seq(label("a", act(lit("a"), b_rec("tried"))), lit("b"), lit("z")), b_rec("s1")), act(seq(label("a", act(any_(), b_rec("second"))), label("b", star(any_()))), b_rec("s2"))))])
    g("pred", [rule("S", act(seq(label("a", cls(ranges=[("a", "b")])), andcode(p_lab("a", "a")), label("b", opt(any_()))), b_rec("s")))])
    g("npred", [rule("S", act(seq(label("a", any_()), notcode(p_lab("a", "b")), label("b", star(any_()))), b_rec("s")))])
    g("multiline", [rule("S", act(label("ls", star(ref("L"))), b_rec("s"))), rule("L", act(seq(label("t", star(cls(chars="\n", inv=True))), lit("\n")), b_rec("line")))])
    g("unicode", [rule("S", act(seq(label("a", star(lit("é"))), label("b", act(opt(cls(ranges=[("a", "b")])), b_rec("tail")))), b_rec("s")))])
    g("inpred", [rule("S", act(seq(and_(act(label("p", any_()), b_rec("look"))), label("a", any_()), not_(act(label("q", lit("b")), b_rec("neg")))), b_rec("s")))])
    g("rules", [rule("S", act(seq(label("a", ref("A")), label("b", ref("A"))), b_rec("s"))), rule("A", act(label("v", cls(ranges=[("a", "b")])), b_rec("A")))])
    g("mblit", [rule("S", act(seq(label("a", lit("aé")), label("b", star(act(cls(ranges=[("a", "b")]), b_rec("it")))), label("d", opt(lit("\n")))), b_rec("s")))])
    g("mblit2", [rule("S", choice(act(seq(lit("é\né"), label("b", act(any_(), b_rec("after")))), b_rec("s1")), act(seq(label("x", any_()), label("y", star(act(any_(), b_rec("it"))))), b_rec("s2"))))])
    g("optseq", [rule("S", act(seq(label("i", plus(cls(ranges=[("0", "1")]))), label("f", opt(act(seq(lit("."), plus(cls(ranges=[("0", "1")]))), b_rec("frac")))), label("r", star(any_()))), b_rec("s")))])
    g("optseq2", [rule("S", act(seq(label("f", opt(seq(lit("a"), lit("b")))), label("g", opt(ref("P"))), label("r", star(any_()))), b_rec("s"))), rule("P", seq(lit("a"), lit("c")))])
    g("predctx", [rule("S", act(seq(label("a", ref("B")), lit("c"), andcode(p_const(True, "pt")), state(s_inc("k")), opt(lit("d"))), b_rec("s"))), rule("B", act(lit("ab"), b_rec("B")))])
    # labels bound directly inside an inline repetition: every iteration binds them afresh (an optional that matched
    # in one iteration and not in the next is nil in the next)
    g("iterlbl", [rule("S", act(label("its", star(act(seq(label("o", opt(lit("a"))), label("ch", cls(chars="bc"))), b_rec("it")))), b_rec("s")))])
    g("iterlbl2", [rule("S", act(seq(label("its", plus(act(seq(label("o", opt(ref("N"))), lit(","), label("q", opt(lit("b")))), b_rec("it")))), label("r", opt(any_()))), b_rec("s"))),
                   rule("N", act(cls(ranges=[("0", "1")]), b_text()))])
    return out


# ------------------------------------------------------------------ C17: invalid UTF-8

def utf8_catalogue():
    out = []
    def g(name, rules):
        out.append(grammar("u8_" + name, rules))
    g("anystar", [rule("S", act(label("x", star(any_())), b_rec("s")))])
    g("anyeof", [rule("S", act(seq(label("x", star(any_())), not_(any_())), b_rec("s")))])
    g("fffdcls", [rule("S", act(seq(label("x", star(cls(chars="�"))), label("y", opt(any_()))), b_rec("s")))])
    g("nfffd", [rule("S", act(seq(label("x", star(cls(chars="�", inv=True))), label("y", opt(any_()))), b_rec("s")))])
    g("nota", [rule("S", act(label("x", star(cls(chars="a", inv=True))), b_rec("s")))])
    g("mixed", [rule("S", act(seq(label("x", lit("a")), label("y", star(choice(lit("é"), cls(ranges=[("a", "b")])))), label("z", opt(any_()))), b_rec("s")))])
    g("lookahead", [rule("S", act(seq(and_(any_()), not_(lit("b")), label("x", any_()), label("y", opt(any_()))), b_rec("s")))])
    g("fffdlit", [rule("S", act(seq(label("x", opt(lit("a�"))), label("y", star(any_()))), b_rec("s")))], )
    g("twice", [rule("S", choice(act(seq(any_(), any_(), lit("z")), b_rec("s1")), act(seq(label("x", any_()), label("y", opt(any_()))), b_rec("s2"))))])
    # literals of several characters (case-sensitive, case-insensitive, with a two-byte rune) with anything behind
    # them: the byte that follows a matched literal is decoded when the literal's last rune is consumed
    g("lit2", [rule("S", act(seq(label("x", lit("ab")), label("y", opt(any_()))), b_rec("s")))])
    g("lit2i", [rule("S", act(seq(label("x", choice(lit("ab", i=True), lit("é"))), label("y", star(cls(chars="a", inv=True)))), b_rec("s")))])
    g("lit2pred", [rule("S", act(seq(label("x", opt(lit("ab"))), not_(lit("ab")), label("y", opt(cls(ranges=[("a", "b")])))), b_rec("s")))])
    return out


# ------------------------------------------------------------------ C08: left recursion

def lr_catalogue():
    out = []
    def g(name, rules, **kw):
        out.append(grammar("lr_" + name, rules, needs_lr=True, **kw))
    num = lambda: act(plus(cls(ranges=[("0", "1")])), b_text())
    # direct, one recursive alternative
    g("direct", [rule("S", act(seq(label("e", ref("E")), not_(any_())), b_rec("s"))),
                 rule("E", choice(act(seq(label("l", ref("E")), lit("+"), label("r", ref("N"))), b_rec("add")), ref("N")), lr=True),
                 rule("N", num())])
    # two recursive alternatives, two bases
    g("two", [rule("S", act(label("e", ref("E")), b_rec("s"))),
              rule("E", choice(act(seq(label("l", ref("E")), lit("+"), label("r", ref("N"))), b_rec("add")),
                               act(seq(label("l", ref("E")), lit("-"), label("r", ref("N"))), b_rec("sub")),
                               ref("N"), act(lit("x"), b_const("X"))), lr=True),
              rule("N", num())])
    # expr / term nesting
    g("nest", [rule("S", act(seq(label("e", ref("E")), not_(any_())), b_rec("s"))),
               rule("E", choice(act(seq(label("l", ref("E")), lit("+"), label("r", ref("T"))), b_rec("add")), ref("T")), lr=True),
               rule("T", choice(act(seq(label("l", ref("T")), lit("*"), label("r", ref("N"))), b_rec("mul")), ref("N")), lr=True),
               rule("N", num())])
    # LR rule referenced under a predicate and in a repetition
    g("pred", [rule("S", act(seq(and_(ref("E")), label("e", ref("E")), label("rest", star(seq(lit(","), ref("E"))))), b_rec("s"))),
               rule("E", choice(act(seq(label("l", ref("E")), lit("+"), label("r", ref("N"))), b_rec("add")), ref("N")), lr=True),
               rule("N", num())])
    # indirect: the cycle passes through another rule (Expr is the leader: smallest name)
    g("indirect", [rule("S", act(seq(label("e", ref("Expr")), not_(any_())), b_rec("s"))),
                   rule("Expr", choice(ref("Sum"), ref("N")), lr=True),
                   rule("Sum", act(seq(label("l", ref("Expr")), cls(chars="+-"), label("r", ref("N"))), b_rec("sum"))),
                   rule("N", num())])
    g("indirect2", [rule("S", act(label("e", ref("E")), b_rec("s"))),
                    rule("E", choice(ref("P"), ref("M"), ref("N")), lr=True),
                    rule("P", act(seq(label("l", ref("E")), lit("+"), label("r", ref("N"))), b_rec("plus"))),
                    rule("M", act(seq(label("l", ref("E")), lit("-"), label("r", ref("N"))), b_rec("minus"))),
                    rule("N", num())])
    # left recursion together with the state store
    g("state", [rule("S", act(seq(label("e", ref("E")), andcode(p_state("k", 0))), b_rec("s"))),
                rule("E", choice(act(seq(label("l", ref("E")), lit("+"), state(s_inc("k")), label("r", ref("N"))), b_rec("add")), ref("N")), lr=True),
                rule("N", num())])
    # a base that can match the empty string: the first growth step starts from an empty seed
    g("emptybase", [rule("S", act(seq(label("e", ref("P")), label("rest", opt(any_()))), b_rec("s"))),
                    rule("P", choice(act(seq(label("l", ref("P")), lit("/"), label("r", ref("N"))), b_rec("seg")), opt(ref("N"))), lr=True),
                    rule("N", num())])
    # suffix-only recursion (postfix operator)
    g("postfix", [rule("S", act(label("e", ref("E")), b_rec("s"))),
                  rule("E", choice(act(seq(label("l", ref("E")), lit("!")), b_rec("bang")), act(lit("0"), b_const("zero"))), lr=True)])
    return out


# ------------------------------------------------------------------ C09: optimisation triggers

def opt_catalogue():
    out = []
    def g(name, rules, tags=(), entries=None):
        gg = grammar("og_" + name, rules, tags=list(tags))
        if entries:
            gg["entries"] = entries
        out.append(gg)
    top = lambda x: act(seq(label("x", x), label("y", opt(any_()))), b_rec("s"))
    # leaf rule used from 1 / 2 / 3 places
    g("leaf1", [rule("S", top(seq(ref("A"), lit("c")))), rule("A", choice(lit("a"), lit("b")))])
    g("leaf2", [rule("S", top(seq(ref("A"), ref("B"), ref("A")))), rule("A", seq(lit("a"), opt(lit("b")))), rule("B", act(lit("c"), b_rec("B")))])
    g("leaf3", [rule("S", top(choice(seq(ref("A"), lit("c")), seq(ref("A"), lit("d")), ref("A")))), rule("A", act(plus(cls(ranges=[("a", "b")])), b_text()))])
    # chain: B leaf inlined into A, then A becomes leaf
    g("chain", [rule("S", top(seq(ref("A"), lit("d")))), rule("A", seq(ref("B"), opt(lit("c")))), rule("B", choice(lit("a"), lit("b")))])
    # nested choices / sequences to depth 3
    g("nestcho", [rule("S", top(choice(choice(lit("ab"), choice(lit("a"), lit("b"))), lit("c"))))])
    g("nestseq", [rule("S", top(seq(seq(lit("a"), seq(lit("b"), cls(chars="c"))), lit("d"))))])
    g("mixnest", [rule("S", top(seq(choice(seq(lit("a"), lit("b")), lit("a")), choice(choice(lit("b"), lit("c")), lit("d")))))])
    # literal / class merging in choices, all i and ^ combinations
    k = 0
    for l0 in (lit("a"), lit("a", i=True), cls(chars="ab"), cls(chars="ab", i=True), cls(chars="ab", inv=True), cls(ranges=[("a", "b")], inv=True, i=True)):
        for l1 in (lit("b"), lit("B", i=True), cls(chars="bc"), cls(chars="BC", i=True), cls(chars="bc", inv=True), cls(ranges=[("b", "d")])):
            k += 1
            tags = []
            if l0["k"] == "cls" and l1["k"] == "cls" and l0["inv"] and l1["inv"] and l0["i"] == l1["i"]:
                tags.append("merge-two-inverted-classes")
            g("merge%02d" % k, [rule("S", top(plus(choice(json_copy(l0), json_copy(l1)))))], tags=tags)
    # literal runs with mixed i
    g("litrun", [rule("S", top(seq(lit("a"), lit("b"), lit("C", i=True), lit("d", i=True), lit("a"))))])
    g("litrun2", [rule("S", top(seq(lit("a"), ref("B"), lit("c")))), rule("B", lit("b"))])
    # predicates and actions on inlined rules, labels inside inlined rules
    g("predinl", [rule("S", top(seq(and_(ref("A")), ref("A"), not_(ref("B"))))), rule("A", cls(ranges=[("a", "c")])), rule("B", lit("d"))])
    g("actinl", [rule("S", top(seq(label("p", ref("A")), label("q", ref("A"))))), rule("A", act(seq(label("v", cls(ranges=[("a", "b")])), label("w", opt(lit("c")))), b_rec("A")))])
    g("lblinl", [rule("S", act(seq(label("p", ref("A")), label("q", opt(ref("B")))), b_rec("s"))), rule("A", seq(label("v", lit("a")), label("w", opt(lit("b"))))), rule("B", act(label("u", lit("c")), b_rec("B")))])
    g("starinl", [rule("S", top(seq(star(ref("A")), plus(ref("B"))))), rule("A", seq(lit("a"), lit("b"))), rule("B", choice(lit("a"), lit("c")))])
    # a leaf rule holding a class, referenced from several choices with different mergeable neighbours
    g("sharedcls", [rule("S", act(seq(label("first", ref("IdStart")), label("rest", star(ref("IdPart")))), b_rec("s"))),
                    rule("IdStart", choice(ref("Letter"), lit("_"))), rule("IdPart", choice(ref("Letter"), lit("$"))), rule("Letter", cls(ranges=[("a", "c")]))])
    g("sharedcls2", [rule("S", top(seq(choice(ref("L"), lit("x")), choice(lit("y"), ref("L")), opt(choice(ref("L"), cls(chars="z")))))), rule("L", cls(chars="abc"))])
    g("sharedlit", [rule("S", top(seq(choice(seq(ref("K"), lit("1")), seq(ref("K"), lit("2"))), ref("K")))), rule("K", seq(lit("a"), lit("b")))])
    # a leaf rule referenced twice from one rule, one reference sitting in a redundant nested group
    g("doubleref", [rule("S", act(seq(label("lo", ref("Num")), seq(lit(".."), ref("Num")), not_(any_())), b_rec("s"))), rule("Num", act(plus(cls(ranges=[("0", "1")])), b_text()))])
    g("doubleref2", [rule("S", top(choice(ref("L"), choice(lit("0"), ref("L"))))), rule("L", act(plus(lit("a")), b_text()))])
    g("tripleref", [rule("S", top(seq(ref("K"), choice(seq(ref("K"), lit("x")), seq(lit("y"), seq(ref("K"), ref("K"))))))), rule("K", cls(chars="ab"))])
    # a leaf rule holding code (predicate, state block, recovery action), inlined into two rules that both survive
    # (they are recursive): every copy needs its own generated method
    keep = lambda nm, sep: rule(nm, seq(ref("W"), opt(seq(lit(sep), ref(nm)))))
    g("sharedcode", [rule("S", act(seq(label("p", ref("K")), lit(":"), label("q", ref("V"))), b_rec("s"))), keep("K", "k"), keep("V", "v"),
                     rule("W", seq(andcode(p_const(True)), cls(ranges=[("a", "c")])))])
    g("sharedcode2", [rule("S", act(seq(label("p", ref("K")), lit(":"), label("q", ref("V"))), b_rec("s"))), keep("K", "k"), keep("V", "v"),
                      rule("W", seq(state(s_inc("k")), notcode({"bk": "PConst", "tag": "pn", "args": [], "val": 0}), cls(ranges=[("a", "c")])))])
    g("sharedcode3", [rule("S", act(seq(label("p", ref("K")), lit(":"), label("q", ref("V"))), b_rec("s"))), keep("K", "k"), keep("V", "v"),
                      rule("W", recover(choice(cls(ranges=[("a", "b")]), throw("l1")), ["l1"], act(cls(chars="c"), b_rec("r"))))])
    # alternate entrypoints
    g("entry", [rule("S", top(seq(ref("A"), ref("B")))), rule("A", act(choice(lit("a"), lit("b")), b_rec("A"))), rule("B", act(seq(lit("c"), opt(ref("A"))), b_rec("B")))], entries=["", "A", "B"])
    g("unused", [rule("S", top(ref("A"))), rule("A", lit("a")), rule("U", act(lit("u"), b_rec("U")))], entries=["", "U"])
    # an alternate entry point that is a leaf rule referenced several times by one rule (inlined at each place, but it
    # must survive as a rule), and a first rule that is a leaf referenced twice by an entry point
    g("entry_twice", [rule("S", top(seq(ref("E"), star(seq(lit(","), ref("E")))))), rule("E", cls(ranges=[("a", "b")]))], entries=["", "E"])
    g("entry_thrice", [rule("S", top(seq(ref("E"), lit("-"), ref("E"), opt(ref("E"))))), rule("T", act(seq(ref("E"), ref("E")), b_rec("T"))), rule("E", lit("ab"))], entries=["", "E", "T"])
    g("entry_first", [rule("S", plus(cls(ranges=[("a", "b")]))), rule("E", act(seq(label("l", ref("S")), lit(","), label("r", ref("S"))), b_rec("E")))], entries=["", "E"])
    # same label name in caller and inlined callee
    g("lblclash", [rule("S", act(seq(label("v", lit("a")), label("q", ref("A"))), b_rec("s"))), rule("A", seq(label("v", lit("b")), opt(lit("c"))))], tags=["inlined-label-clash"])
    # the same with an unlabelled reference: inlining puts the callee's label into the caller's scope. On the tree as
    # given the optimized parser does not compile (finding F13); if it ever does, the caller's action must still see
    # its own label
    g("lblclash2", [rule("S", act(seq(label("v", cls(ranges=[("a", "b")])), ref("A"), label("t", opt(any_()))), b_rec("s"))), rule("A", seq(label("v", lit("c")), opt(lit("d"))))],
      tags=["inlined-label-clash", "known-if-not-type-checking:F13"])
    # a negative predicate over a one-character matcher directly followed by the any matcher (the usual way to write
    # "anything but"): every combination of literal / class, i and ^, written in place and through a leaf rule
    k = 0
    for t in (lit("b"), lit("b", i=True), lit("B", i=True), cls(chars="ab"), cls(chars="ab", i=True), cls(chars="AB", i=True), cls(chars="a", inv=True), cls(ranges=[("a", "b")], inv=True, i=True)):
        k += 1
        g("notany%d" % k, [rule("S", top(seq(star(seq(not_(json_copy(t)), any_())), opt(lit("b")))))])
        g("notanyr%d" % k, [rule("S", top(seq(star(seq(not_(ref("Stop")), any_())), opt(ref("Stop"))))), rule("Stop", json_copy(t))])
    # adjacent literals with different i flags around a letter whose case mapping is one-way (sharp s)
    g("sharps1", [rule("S", top(seq(lit("a", i=True), lit("\u00df"), opt(lit("e", i=True)))))], tags=[])
    g("sharps2", [rule("S", top(seq(lit("\u00df", i=True), lit("x"))))])
    out[-1]["alphabet_extra"] = out[-2]["alphabet_extra"] = "\u1e9e"  # capital sharp s: lower-cases to the small one, which has no upper case
    # a diamond of references: B becomes inlinable only after its users A1 and A2 were visited; A1 also uses A2 and
    # has a literal between the two references (merge order)
    g("diamond", [rule("S", top(plus(ref("A1")))), rule("A1", choice(ref("A2"), lit("x"), ref("B"))), rule("A2", choice(seq(lit("-"), ref("B")), lit("y"))),
                  rule("B", choice(lit("1"), ref("C"))), rule("C", lit("0"))])
    return out


def json_copy(x):
    import json
    return json.loads(json.dumps(x))


# ------------------------------------------------------------------ C16: budgets

def budget_catalogue():
    out = []
    def g(name, rules, **kw):
        out.append(grammar("bd_" + name, rules, **kw))
    top = lambda x: act(seq(label("x", x), label("y", opt(any_()))), b_rec("s"))
    g("seq", [rule("S", top(seq(lit("a"), opt(lit("b")), star(cls(ranges=[("a", "c")])))))])
    g("cho", [rule("S", top(choice(seq(lit("a"), lit("b")), seq(lit("a"), lit("c")), plus(lit("a")))))])
    g("pred", [rule("S", top(seq(and_(any_()), not_(lit("b")), star(any_()))))])
    g("rules", [rule("S", top(seq(ref("A"), star(ref("B"))))), rule("A", choice(lit("a"), lit("b"))), rule("B", act(cls(ranges=[("a", "c")]), b_text()))])
    # repetitions that can iterate without consuming input
    g("emptystar", [rule("S", act(seq(star(lit("")), any_()), b_rec("s")))], nonterminating=True, budget_max=12)
    g("andstar", [rule("S", act(seq(star(and_(lit("a"))), any_()), b_rec("s")))], nonterminating=True, budget_max=12)
    g("optplus", [rule("S", act(seq(plus(opt(lit("a"))), any_()), b_rec("s")))], nonterminating=True, budget_max=12)
    g("notstar", [rule("S", act(seq(star(not_(lit("b"))), any_()), b_rec("s")))], nonterminating=True, budget_max=12)
    # labelled failures: the recovery expression is evaluated inside the throw and is budgeted like anything else,
    # also after a first recovery has succeeded
    g("recover", [rule("S", top(seq(recover(seq(choice(lit("a"), throw("l1")), opt(lit("b"))), ["l1"], act(seq(any_(), opt(lit("c"))), b_rec("r"))), star(cls(ranges=[("a", "c")])))))])
    g("recover2", [rule("S", top(star(ref("I")))), rule("I", recover(seq(lit("a"), choice(lit("b"), throw("l1"))), ["l1"], act(seq(not_(lit("a")), any_()), b_rec("r"))))])
    g("recoverloop", [rule("S", act(seq(recover(choice(lit("a"), throw("l1")), ["l1"], any_()), star(and_(cls(ranges=[("a", "z")]))), any_()), b_rec("s")))], nonterminating=True, budget_max=12)
    return out


# ------------------------------------------------------------------ C07(b): grammars with a first-call cycle (hidden or plain)

def cyclic_catalogue():
    """Every grammar here lets some rule reach itself at the same input position;
    the tool must reject each of them unless -support-left-recursion is given."""
    out = []
    def g(name, rules):
        out.append(grammar("cy_" + name, rules, cyclic=True))
    top = lambda: rule("S", act(label("x", ref("A")), b_rec("s")))
    g("direct", [top(), rule("A", choice(seq(ref("A"), lit("x")), lit("y")))])
    g("optprefix", [top(), rule("A", choice(seq(opt(ref("B")), ref("A"), lit("x")), lit("y"))), rule("B", lit("b"))])
    g("andpred", [top(), rule("A", seq(and_(ref("A")), lit("a")))])
    g("notpred", [top(), rule("A", seq(not_(ref("A")), lit("a")))])
    g("notindirect", [top(), rule("A", seq(not_(ref("B")), lit("a"))), rule("B", seq(ref("A"), lit("b")))])
    g("plusseq", [top(), rule("A", choice(plus(seq(ref("N"), ref("A"))), lit("a"))), rule("N", opt(lit("n")))])
    g("optseq", [top(), rule("A", seq(opt(seq(ref("N"), ref("A"))), lit("a"))), rule("N", opt(lit("n")))])
    g("starseq", [top(), rule("A", seq(star(seq(ref("N"), ref("A"), lit("q"))), lit("a"))), rule("N", opt(lit("n")))])
    g("indirect", [top(), rule("A", choice(seq(ref("B"), lit("x")), lit("a"))), rule("B", choice(seq(ref("A"), lit("y")), lit("b")))])
    g("emptylit", [top(), rule("A", choice(seq(lit(""), ref("A")), lit("a")))])
    g("label", [top(), rule("A", choice(seq(label("v", ref("A")), lit("a")), lit("a")))])
    g("choice", [top(), rule("A", seq(choice(ref("A"), lit("b")), lit("e")))])
    g("optself", [top(), rule("A", seq(opt(ref("A")), lit("a")))])
    g("codepred", [top(), rule("A", choice(seq(andcode(p_const(True)), ref("A"), lit("a")), lit("a")))])
    g("action", [top(), rule("A", choice(seq(act(ref("A"), b_rec("in")), lit("a")), lit("a")))])
    g("andseq", [top(), rule("A", seq(and_(seq(ref("N"), ref("A"))), lit("a"))), rule("N", opt(lit("n")))])
    g("choicepred", [top(), rule("A", choice(not_(lit("x")), seq(ref("A"), lit("y"))))])
    g("choicecodepred", [top(), rule("A", choice(andcode(p_const(False)), seq(ref("A"), lit("y")), lit("a")))])
    g("choicepredindirect", [top(), rule("A", choice(not_(any_()), ref("P"), lit("a"))), rule("P", seq(ref("A"), lit(":"), ref("A")))])
    # the cycle closes only through a recovery expression: R runs where the throw happens,
    # which is the start of A although the guarded sequence is not nullable
    g("recthrow", [top(), rule("A", recover(seq(ref("H"), lit("z")), ["l1"], ref("F"))), rule("H", choice(lit("b"), throw("l1"))),
                   rule("F", choice(seq(ref("A"), lit("q")), lit("f")))])
    g("choicepredn", [top(), rule("A", choice(not_(lit("x")), seq(ref("N"), ref("A"), lit("y")))), rule("N", opt(lit("n")))])
    # a rule name defined twice (the front end does not object; the later definition is the one the rule table of the
    # parser holds): one of the two definitions is left-recursive. Whatever the tool does with the pair - reject it, or
    # accept it and run the non-recursive definition - a parser that re-enters A at one position is the silent
    # acceptance C07 excludes. (No code blocks in A: two definitions with blocks do not compile, finding F22.)
    g("dupfirst", [top(), rule("A", choice(seq(ref("A"), lit("x")), lit("y"))), rule("A", seq(lit("y"), star(lit("x"))))])
    g("duplast", [top(), rule("A", seq(lit("y"), star(lit("x")))), rule("A", choice(seq(ref("A"), lit("x")), lit("y")))])
    g("dupstart", [rule("S", choice(seq(ref("S"), lit("x")), lit("y"))), rule("S", seq(lit("y"), star(lit("x"))))])
    # the throw sits in another rule than the handler: H throws, the handler in A runs F, F calls H again at the same position
    g("throwcross", [top(), rule("A", recover(ref("H"), ["l1"], ref("F"))), rule("H", choice(lit("b"), throw("l1"))),
                     rule("F", seq(ref("H"), lit("x")))])
    return out


# ------------------------------------------------------------------ seeded random grammars (program dimension)

def _nullable(e, rules_null):
    k = e["k"]
    if k == "lit": return e["v"] == ""
    if k in ("cls", "any"): return False
    if k == "seq": return all(_nullable(x, rules_null) for x in e["kids"])
    if k == "choice": return any(_nullable(x, rules_null) for x in e["kids"])
    if k in ("star", "opt", "and", "not", "andcode", "notcode", "state"): return True
    if k == "plus": return _nullable(e["kids"][0], rules_null)
    if k in ("label", "act"): return _nullable(e["kids"][0], rules_null)
    if k == "ref": return rules_null.get(e["name"], False)
    if k == "recover": return _nullable(e["kids"][0], rules_null) or _nullable(e["kids"][1], rules_null)
    if k == "throw": return True
    return False


def random_grammars(seed, count, features=("pred", "label", "act"), depth=3):
    """Seeded random well-formed grammars: 2-3 rules (acyclic references), expression depth <= 3,
    terminals over {a,b,c}, no repetition over a nullable body. The entry rule wraps its body in a
    record action so that success is observable."""
    rnd = random.Random(seed)
    out = []
    terms = [lambda: lit("a"), lambda: lit("b"), lambda: lit("ab"), lambda: lit("c"), lambda: lit("B", i=True),
             lambda: cls(ranges=[("a", "b")]), lambda: cls(chars="bc"), lambda: cls(chars="a", inv=True), lambda: any_(),
             lambda: cls(chars="c", i=True),
             # the same case-insensitive literal in another spelling (equal once lower-cased, different in messages)
             lambda: lit("b", i=True), lambda: lit("aB", i=True), lambda: lit("Ab", i=True),
             # "anything but": a negative predicate over a one-character matcher, then the any matcher
             lambda: seq(not_(lit("b", i=True)), any_()), lambda: seq(not_(cls(chars="ac")), any_())]
    n = 0
    attempts = 0
    while len(out) < count and attempts < count * 20:
        attempts += 1
        lower = ["Y", "Z"][: rnd.randint(1, 2)]
        null = {}
        labels = [0]
        faults = [0]

        pool = "lblpool" in features
        all_names = ["S"] + lower

        def gen(depth, refs, scope=None, banned=frozenset(), norefs=False):
            """scope: labels already bound in the current label scope (None: labels are not drawn here);
            banned: failure labels whose recovery expression is being generated (throwing them would recurse);
            norefs: inside a recovery expression no rule is referenced (a referenced rule could throw a banned label)."""
            if norefs:
                refs = []
            r = rnd.random()
            if depth <= 0 or r < 0.25:
                if refs and rnd.random() < 0.3:
                    return ref(rnd.choice(refs))
                return rnd.choice(terms)()
            kinds = ["seq", "seq", "choice", "choice", "star", "plus", "opt", "and", "not", "label", "act", "group"]
            if "state" in features:
                kinds += ["state", "state", "obs"]
            if "throw" in features:
                kinds += ["throw", "recover", "recover"]
            kind = rnd.choice(kinds)
            sub = lambda sc=scope, bn=banned, nr=norefs: gen(depth - 1, refs, sc, bn, nr)
            new = lambda: (set() if pool else None)
            if kind == "state":
                return seq(state(s_inc("k")), sub())
            if kind == "obs":
                return seq(andcode(p_state("k", rnd.randint(0, 2))), sub())
            if kind == "throw":
                free = [l for l in (["l1", "l2", "l3"] if "rcvgen" in features else ["l1", "l2"]) if l not in banned]
                if not free:
                    return rnd.choice(terms)()
                return choice(sub(new()), throw(rnd.choice(free)))
            if kind == "recover":
                labs = rnd.choice([["l1"], ["l2"], ["l1", "l2"]] + ([["l3"], ["l2", "l3"]] if "rcvgen" in features else []))
                sc = new()
                guarded = sub(sc)
                if "rcvgen" in features and rnd.random() < 0.6:
                    # any expression may be a recovery expression, also one that uses recovery operators itself
                    rx = gen(depth - 1, refs, sc, banned | frozenset(labs), True)
                    if rnd.random() < 0.5:
                        rx = act(rx, b_rec())
                    return recover(guarded, labs, rx)
                return recover(guarded, labs, act(rnd.choice(terms)(), b_rec()))
            if kind == "seq":
                items = []
                for k in range(rnd.randint(2, 3)):
                    if (k > 0 and "rec" in features and not norefs and rnd.random() < 0.3
                            and any(not _nullable(x, null) for x in items)):
                        # a reference to ANY rule (itself, a later one) is fine once input has been consumed
                        items.append(ref(rnd.choice(all_names)))
                    else:
                        items.append(sub())
                return seq(*items)
            if kind == "choice":
                return choice(*[sub(new()) for _ in range(rnd.randint(2, 3))])
            if kind in ("star", "plus"):
                for _ in range(8):
                    body = sub(new())
                    if not _nullable(body, null) and not has_open_ref(body):
                        return star(body) if kind == "star" else plus(body)
                return plus(rnd.choice(terms[:4])())
            if kind == "opt":
                return opt(sub(new()))
            if kind == "and" and "pred" in features:
                return and_(sub(new()))
            if kind == "not" and "pred" in features:
                return not_(sub(new()))
            if kind == "label" and "label" in features:
                if scope == "NOLABEL":
                    return sub()  # top scope of a helper rule
                if pool:
                    if scope is None:
                        return sub()
                    free = [v for v in ("v1", "v2", "v3", "v4") if v not in scope]
                    if not free:
                        return sub()
                    nm = rnd.choice(free)
                    scope.add(nm)
                    return label(nm, sub(set()))
                labels[0] += 1
                return label("v%d" % labels[0], sub())
            if kind == "act" and "act" in features:
                if "fault" in features and faults[0] < 2 and rnd.random() < 0.7:
                    faults[0] += 1
                    if rnd.random() < 0.25:
                        return seq(andcode(p_fault(faults[0] - 1)), sub())
                    return act(sub(), b_fault(faults[0] - 1))
                return act(sub(), b_rec() if rnd.random() < 0.7 else b_text())
            return sub()

        def has_open_ref(e):
            # a reference to a rule that is not defined yet: its nullability is unknown
            found = [False]
            def f(x):
                if x["k"] == "ref" and x["name"] not in null:
                    found[0] = True
            walk(e, f)
            return found[0]

        rules = []
        defs = {}
        for i, nm in enumerate(reversed(lower)):
            avail = [x for x in defs]
            e = gen(depth - 1, avail, "NOLABEL")  # (no label in the top scope of a helper rule: inlining would merge it into the caller's scope, finding F13)
            defs[nm] = e
            null[nm] = _nullable(e, null)
        body = gen(depth, list(defs), set() if pool else None)
        labels[0] += 1
        top = "top" if pool else "v%d" % labels[0]
        s_items = [label(top, body), label("rest", opt(any_()))]
        if "state" in features:
            # the store as it is at the end of the parse is observed (one of the two predicates holds): a change
            # that should have been rolled back shows even when nothing after it fails
            s_items.append(choice(andcode(p_state("k", 0)), andcode(p_state("k", 1))))
        rules.append(rule("S", act(seq(*s_items), b_rec("s"))))
        for nm in lower:
            rules.append(rule(nm, defs[nm]))
        n += 1
        if "state" in features and not has_state_block({"rules": rules[:1]}):
            # c.state only exists in an optimized parser when the grammar has a state block (doc.go,
            # -optimize-parser); the block sits in the entry rule so that -optimize-grammar cannot
            # remove it together with an unreferenced rule
            rules[0]["expr"]["kids"][0]["kids"].insert(0, state(s_inc("k")))
        if len(lower) == 2 and n % 3 == 0:
            extra_entries = ["", lower[0]]
        else:
            extra_entries = None
        g = grammar("rnd%s%d_%d" % ("".join(f[0] for f in features if f in ("state", "throw", "fault", "rec", "lblpool", "rcvgen")), seed, n), rules, tags=["random"])
        if "fault" in features:
            if faults[0] == 0 or not uses_fault({"rules": rules}):
                continue  # (a fault block drawn inside a discarded subtree does not count)
            g["fault_slots"] = faults[0]
        if extra_entries:
            g["entries"] = extra_entries  # used by C09 / C04 (-alternate-entrypoints keeps the rule alive)
        out.append(g)
    return out


def random_classes(seed, count):
    """Seeded random character classes over a pool of boundary runes (C15): ASCII case and
    punctuation boundaries, DEL/0x80, runes whose case folding crosses the ASCII border."""
    rnd = random.Random(seed * 7919 + 13)
    pool = list("@AZ[`az{~09_kKsSiI") + ["\x00", "\x1f", "\x7f", "\x80", "\xb5", "\xdf", "\xe9", "\xc9", "İ", "ı", "ſ", "K", "ǅ", "Σ", "ς", "￿"]
    ucls = ["L", "Lu", "Ll", "Lt", "Nd", "N", "P", "S", "Zs", "Latin", "Greek", "Cc"]
    out = []
    for n in range(count):
        chars = "".join(rnd.sample(pool, rnd.randint(0, 3)))
        ranges = []
        for _ in range(rnd.randint(0, 2)):
            a, b = rnd.choice(pool), rnd.choice(pool)
            if a > b:
                a, b = b, a
            ranges.append((a, b))
        classes = rnd.sample(ucls, rnd.choice([0, 0, 1, 2]))
        if not chars and not ranges and not classes:
            chars = rnd.choice(pool)
        inv, ic = rnd.random() < 0.4, rnd.random() < 0.6
        c = lambda: cls(chars=chars, ranges=ranges, classes=classes, inv=inv, i=ic)
        out.append(grammar("krnd%d_%d" % (seed, n), [rule("S", act(seq(label("x", star(c())), label("y", opt(any_()))), b_rec("s")))], tags=["random"]))
    return out


def random_class_groups(seed, count):
    """Seeded grammars with two to four classes each (C15, C01): classes of one grammar share Unicode class
    names, characters and ranges but differ in ^ and i - whatever the builder computes per class must not
    depend on the classes emitted before it."""
    rnd = random.Random(seed * 6007 + 29)
    pool = list("AZaz09_kKiI") + ["\x7f", "\xe9", "\xc9", "K", "İ"]
    ucls = ["Lu", "Ll", "L", "Nd", "Latin", "Soft_Dotted"]
    out = []
    for n in range(count):
        shared_cls = rnd.sample(ucls, rnd.randint(1, 2))
        shared_chars = "".join(rnd.sample(pool, rnd.randint(0, 2)))
        shared_rng = []
        if rnd.random() < 0.5:
            a, b = sorted(rnd.sample(pool, 2))
            shared_rng.append((a, b))
        cs = []
        for k in range(rnd.randint(2, 4)):
            classes = [c for c in shared_cls if rnd.random() < 0.8] or shared_cls[:1]
            chars = shared_chars if rnd.random() < 0.6 else "".join(rnd.sample(pool, rnd.randint(0, 2)))
            rng = shared_rng if rnd.random() < 0.6 else []
            cs.append(cls(chars=chars, ranges=list(rng), classes=list(classes), inv=rnd.random() < 0.3, i=rnd.random() < 0.5))
        # the classes one after the other on the same rune (predicates), so that one input rune meets every class
        # (a predicate yields nil either way: the action makes its outcome part of the value)
        items = [label("p%d" % k, opt(act(and_(c), b_const("T%d" % k)))) for k, c in enumerate(cs)]
        items.append(label("y", opt(any_())))
        out.append(grammar("kgrp%d_%d" % (seed, n), [rule("S", act(seq(*items), b_rec("s")))], tags=["random"]))
    return out


def random_lr(seed, count):
    """Seeded random left-recursive grammars of the shape the reference handles (C08):
    E <- E t1 X1 {..} / E t2 X2? {..} / B1 / B2, entered through the leader, with the operators,
    right operands and bases drawn at random; S wraps E in a random context."""
    rnd = random.Random(seed * 104729 + 7)
    out = []
    ops = ["+", "-", "*", "!", "ab"]
    for n in range(count):
        def operand():
            k = rnd.random()
            if k < 0.4:
                return ref("N")
            if k < 0.6:
                return cls(ranges=[("0", "1")])
            if k < 0.8:
                return seq(lit("("), ref("N"), lit(")"))
            return opt(ref("N"))
        alts = []
        used = rnd.sample(ops, rnd.randint(1, 3))
        helpers = []
        through = set()
        if n % 3 == 2:
            # the recursion passes through a helper rule; its name sorts before or after E, which is what a
            # tie-break of the leader selection would depend on. Either exactly one alternative goes through a
            # helper next to direct ones (E is then on a one-rule and on a two-rule cycle), or any subset does.
            if (n // 3) % 2 == 0:
                if len(used) < 2:
                    used = rnd.sample(ops, 2)
                through = {rnd.randrange(len(used))}
            else:
                through = {k for k in range(len(used)) if rnd.random() < 0.6}
        for k, o in enumerate(used):
            items = [label("l", ref("E")), lit(o)]
            if rnd.random() < 0.8:
                items.append(label("r", operand()))
            if rnd.random() < 0.2:
                items.insert(1, not_(lit("0")))
            alt = act(seq(*items), b_rec("op%d" % k))
            if k in through:
                nm = ("A" if rnd.random() < 0.5 else "Z") + "h%d" % k
                helpers.append(rule(nm, alt))
                alt = ref(nm)
            alts.append(alt)
        bases = [ref("N")]
        if rnd.random() < 0.25:
            bases = [opt(ref("N"))]  # a base that can match the empty string
        if rnd.random() < 0.5:
            bases.append(act(lit("x"), b_const("X")))
        if rnd.random() < 0.3:
            bases.insert(0, act(seq(lit("("), label("i", ref("N")), lit(")")), b_rec("par")))
        e_rule = rule("E", choice(*(alts + bases)), lr=True)
        ctx = rnd.choice(["eof", "plain", "pred", "rep", "opt"])
        if ctx == "eof":
            s_body = seq(label("e", ref("E")), not_(any_()))
        elif ctx == "plain":
            s_body = label("e", ref("E"))
        elif ctx == "pred":
            s_body = seq(and_(ref("E")), label("e", ref("E")), label("rest", opt(any_())))
        elif ctx == "rep":
            s_body = seq(label("e", ref("E")), label("rest", star(seq(lit(","), ref("E")))))
        else:
            s_body = seq(label("p", opt(lit("-"))), label("e", ref("E")))
        out.append(grammar("lrrnd%d_%d" % (seed, n), [rule("S", act(s_body, b_rec("s"))), e_rule] + helpers +
                           [rule("N", act(plus(cls(ranges=[("0", "1")])), b_text()))], needs_lr=True, tags=["random"]))
    return out


def random_class_merges(seed, count):
    """Seeded random choices of classes and one-character literals (directly and through leaf
    rules) over a-h: what -optimize-grammar merges into one class (C09, C10, C15)."""
    rnd = random.Random(seed * 31337 + 5)
    letters = "abcdefgh"
    out = []
    for n in range(count):
        def one_class():
            chars = "".join(rnd.sample(letters, rnd.randint(0, 2)))
            ranges = []
            for _ in range(rnd.randint(0, 2)):
                a, b = sorted(rnd.sample(letters, 2))
                ranges.append((a, b))
            if not chars and not ranges:
                ranges.append(tuple(sorted(rnd.sample(letters, 2))))
            return cls(chars=chars, ranges=ranges, inv=rnd.random() < 0.15, i=ic)
        ic = rnd.random() < 0.3
        alts, rules = [], []
        for k in range(rnd.randint(2, 4)):
            r0 = rnd.random()
            if r0 < 0.3:
                a = lit(rnd.choice(letters), i=ic if rnd.random() < 0.8 else not ic)
            elif r0 < 0.38:
                a = lit("".join(rnd.sample(letters, 2)), i=ic)  # a literal of two characters must not be merged into a class
            else:
                a = one_class()
            if rnd.random() < 0.4:
                nm = "L%d" % k
                rules.append(rule(nm, a))
                a = ref(nm)
            alts.append(a)
        if rules and n % 2 == 1:
            # rule-level redundancy: a rule that is itself a choice over an earlier leaf rule and something else,
            # referenced next to that leaf rule (NameChar <- Letter / NameStart / Digit, NameStart <- Letter / "_")
            leaf = rnd.choice(rules)["name"]
            other = lit(rnd.choice(letters), i=ic) if rnd.random() < 0.6 else one_class()
            mid = [ref(leaf), other]
            rnd.shuffle(mid)
            rules.append(rule("M%d" % n, choice(*mid)))
            at = rnd.randint(0, len(alts))
            alts.insert(at, ref("M%d" % n))
            if rnd.random() < 0.6:
                # the leaf itself directly in front of or behind the rule that contains it
                alts.insert(at + rnd.randint(0, 1), ref(leaf))
        if rnd.random() < 0.2:
            alts.append(lit(""))  # the always-matching empty alternative ("-" / "+" / "")
        # (no repetition: one merged class decides one byte, so the path count stays small at any input bound)
        items = [label("x", choice(*alts))]
        if rules and rnd.random() < 0.6:
            # the same leaf rules again, next to other neighbours: inlined copies of one class are merged differently
            again = [ref(r["name"]) for r in rules[: rnd.randint(1, len(rules))]]
            again.insert(rnd.randint(0, len(again)), one_class() if rnd.random() < 0.6 else lit(rnd.choice(letters), i=ic))
            items.append(label("w", opt(choice(*again))))
        items.append(label("y", opt(any_())))
        out.append(grammar("mrg%d_%d" % (seed, n), [rule("S", act(seq(*items), b_rec("s")))] + rules, tags=["random"]))
    return out


def random_iliterals(seed, count):
    """Seeded case-insensitive literals over letters whose case folding is unusual (it crosses the ASCII
    border or changes the UTF-8 length), at the end of the input and followed by more (C01, C10, C15)."""
    rnd = random.Random(seed * 2671 + 3)
    special = ["K", "İ", "ı", "ſ", "Ⱥ", "ⱥ", "Ⱦ", "ß", "ẞ", "ǅ", "Σ", "ς", "µ", "é", "É", "k", "s", "i"]
    ascii_ = "akst"
    out = []
    for n in range(count):
        if n < len(special):
            # every special letter once as the last thing in the input
            w, tail = special[n], not_(any_())
        else:
            w = rnd.choice(special)
            if rnd.random() < 0.5:
                w = rnd.choice(ascii_) + w if rnd.random() < 0.5 else w + rnd.choice(ascii_)
            tail = rnd.choice([not_(any_()), opt(any_()), lit("-")])
        body = seq(label("x", lit(w, i=True)), label("y", tail)) if tail["k"] != "not" else seq(label("x", lit(w, i=True)), tail)
        out.append(grammar("ilit%d_%d" % (seed, n), [rule("S", act(body, b_rec("s")))], tags=["random"]))
    return out

"""gspec: catalogue grammars as Python data (JSON-like AST).

print_peg(g)   -> the .peg text fed to the real pigeon
go_ref(g)      -> a Go literal of *ref.Grammar for the reference interpreter

Code blocks come from a closed menu (DESIGN.md Appendix C) so that the
reference knows their meaning without running them.
"""
import json

# ----------------------------------------------------------------- constructors

def lit(s, i=False):
    return {"k": "lit", "v": s, "i": i}

def cls(chars="", ranges=(), classes=(), inv=False, i=False):
    """chars: string of single chars; ranges: list of (lo,hi) 1-char strings;
    classes: list of unicode class names ('L', 'Latin', ...)"""
    return {"k": "cls", "chars": chars, "ranges": [list(r) for r in ranges],
            "classes": list(classes), "inv": inv, "i": i}

def any_():
    return {"k": "any"}

def seq(*es):
    assert len(es) >= 2, "a one-item sequence is not a SeqExpr"
    return {"k": "seq", "kids": list(es)}

def choice(*es):
    assert len(es) >= 2
    return {"k": "choice", "kids": list(es)}

def star(e): return {"k": "star", "kids": [e]}
def plus(e): return {"k": "plus", "kids": [e]}
def opt(e): return {"k": "opt", "kids": [e]}
def and_(e): return {"k": "and", "kids": [e]}
def not_(e): return {"k": "not", "kids": [e]}
def label(name, e): return {"k": "label", "name": name, "kids": [e]}
def ref(name): return {"k": "ref", "name": name}
def act(e, block): return {"k": "act", "kids": [e], "block": block}
def andcode(block): return {"k": "andcode", "block": block}
def notcode(block): return {"k": "notcode", "block": block}
def state(block): return {"k": "state", "block": block}
def throw(l): return {"k": "throw", "name": l}
def recover(e, labels, r): return {"k": "recover", "kids": [e, r], "labels": list(labels)}

def rule(name, expr, display=None, lr=False):
    return {"name": name, "expr": expr, "display": display, "lr": lr}

def grammar(name, rules, **meta):
    g = {"name": name, "rules": rules}
    g.update(meta)
    return g

# blocks ---------------------------------------------------------------------
_tagn = [0]

def _tag(prefix):
    _tagn[0] += 1
    return "%s%d" % (prefix, _tagn[0])

def b_rec(tag=None, args="auto"): return {"bk": "BRec", "tag": tag or _tag("a"), "args": args}
def b_text(): return {"bk": "BText", "tag": "", "args": []}
def b_const(tag): return {"bk": "BConst", "tag": tag, "args": []}
def b_lab(l): return {"bk": "BLab", "tag": "", "args": [l]}
def b_fault(slot, tag=None, args="auto"): return {"bk": "BFault", "tag": tag or _tag("f"), "args": args, "slot": slot}
def b_ginc(key, tag=None): return {"bk": "GInc", "tag": tag or _tag("g"), "args": "auto", "key": key}
def b_amut(key, tag=None): return {"bk": "AMut", "tag": tag or _tag("m"), "args": "auto", "key": key}
def p_const(v, tag=None, args="auto"): return {"bk": "PConst", "tag": tag or _tag("p"), "args": args, "val": 1 if v else 0}
def p_lab(l, ch, tag=None): return {"bk": "PLab", "tag": tag or _tag("p"), "args": [l], "val": ord(ch)}
def p_state(key, m, tag=None): return {"bk": "PState", "tag": tag or _tag("ps"), "args": [], "key": key, "val": m}
def p_mut(key): return {"bk": "PMut", "tag": "", "args": [], "key": key}
def p_fault(slot, tag=None): return {"bk": "PFault", "tag": tag or _tag("pf"), "args": "auto", "slot": slot}
def s_set(key, v, tag=None): return {"bk": "SSet", "tag": tag or _tag("s"), "args": [], "key": key, "val": v}
def s_inc(key, tag=None): return {"bk": "SInc", "tag": tag or _tag("s"), "args": [], "key": key}
def s_box(key, tag=None): return {"bk": "SBox", "tag": tag or _tag("s"), "args": [], "key": key}
def s_fault(slot, tag=None): return {"bk": "SFault", "tag": tag or _tag("sf"), "args": "auto", "slot": slot}

STATE_BLOCKS = {"PState", "PMut", "SSet", "SInc", "SBox", "AMut", "SFault"}

# ----------------------------------------------------------------- traversal

def walk(e, f):
    f(e)
    for k in e.get("kids", []):
        walk(k, f)

def uses_state(g):
    found = [False]
    def f(e):
        b = e.get("block")
        if e["k"] == "state" or (b and b["bk"] in STATE_BLOCKS):
            found[0] = True
    for r in g["rules"]:
        walk(r["expr"], f)
    return found[0]

def has_state_block(g):
    found = [False]
    def f(e):
        if e["k"] == "state":
            found[0] = True
    for r in g["rules"]:
        walk(r["expr"], f)
    return found[0]

def state_keys(g):
    keys = {}
    def f(e):
        b = e.get("block")
        if b and "key" in b and b["bk"] != "GInc":
            keys.setdefault(b["key"], b["bk"] == "SBox")
            if b["bk"] == "SBox":
                keys[b["key"]] = True
    for r in g["rules"]:
        walk(r["expr"], f)
    return keys

def uses_fault(g):
    found = [False]
    def f(e):
        b = e.get("block")
        if b and b["bk"] in ("BFault", "PFault", "SFault"):
            found[0] = True
    for r in g["rules"]:
        walk(r["expr"], f)
    return found[0]

def assign_args(g):
    """Mirror of builder.writeExprCode's argsStack: fixes, for every block
    whose args is "auto", the labels pigeon passes to the generated function."""
    for r in g["rules"]:
        stack = [[]]
        def go(e):
            k = e["k"]
            if k == "act":
                go(e["kids"][0])
                setargs(e)
            elif k in ("andcode", "notcode", "state"):
                setargs(e)
            elif k == "label":
                stack[-1].append(e["name"])
                stack.append([]); go(e["kids"][0]); stack.pop()
            elif k in ("and", "not", "plus", "star", "opt"):
                stack.append([]); go(e["kids"][0]); stack.pop()
            elif k == "choice":
                for a in e["kids"]:
                    stack.append([]); go(a); stack.pop()
            elif k == "recover":
                stack.append([]); go(e["kids"][0]); go(e["kids"][1]); stack.pop()
            elif k == "seq":
                for s in e["kids"]:
                    go(s)
        def setargs(e):
            b = e["block"]
            e["scope"] = list(stack[-1])
            if b["args"] == "auto":
                b["args"] = list(stack[-1])
            else:
                for a in b["args"]:
                    assert a in stack[-1], "label %s not in scope of block in rule %s" % (a, r["name"])
        go(r["expr"])
    return g

# ----------------------------------------------------------------- printing

LEVEL = {"recover": 0, "choice": 1, "act": 2, "seq": 3, "label": 4, "throw": 4,
         "and": 5, "not": 5, "star": 6, "plus": 6, "opt": 6}

def level(e):
    return LEVEL.get(e["k"], 7)

def go_quote(s):
    """strconv.Quote for the catalogue's character set."""
    out = ['"']
    for ch in s:
        o = ord(ch)
        if ch == '"': out.append('\\"')
        elif ch == '\\': out.append('\\\\')
        elif ch == '\n': out.append('\\n')
        elif ch == '\t': out.append('\\t')
        elif ch == '\r': out.append('\\r')
        elif o < 0x20 or o == 0x7f: out.append('\\x%02x' % o)
        else: out.append(ch)
    out.append('"')
    return "".join(out)

def cls_char(ch):
    if ch in "]\\": return "\\" + ch
    if (ord(ch) < 0x20 and ch not in "\n\t\r") or ord(ch) == 0x7f: return "\\x%02x" % ord(ch)
    if ch == "\n": return "\\n"
    if ch == "\t": return "\\t"
    if ch == "\r": return "\\r"
    return ch

def cls_raw(e):
    s = "["
    if e["inv"]: s += "^"
    for ch in e["chars"]:
        s += cls_char(ch)
    for lo, hi in e["ranges"]:
        s += cls_char(lo) + "-" + cls_char(hi)
    for c in e["classes"]:
        s += "\\p" + (c if len(c) == 1 else "{" + c + "}")
    s += "]"
    if e["i"]: s += "i"
    return s

def want(e):
    if e["k"] == "lit":
        return go_quote(e["v"]) + ("i" if e["i"] else "")
    if e["k"] == "cls":
        return cls_raw(e)
    if e["k"] == "any":
        return "."
    raise ValueError(e["k"])

def args_decl(b):
    return ", ".join(b["args"])

def block_code(e, recv="c"):
    """Go source of a menu block (without the introducing &, !, #)."""
    b = e["block"]
    k = b["bk"]
    tag = go_quote(b["tag"])
    a = "".join(", " + x for x in b["args"])
    rec = "mkrec(c, %s%s)" % (tag, a)
    key = go_quote(b.get("key", ""))
    def faultsw(okret, ret):
        return ("switch fault(%d) { case 1: return %s errA; case 2: return %s errB; case 3: panic(\"boom\") }; return %s"
                % (b["slot"], ret, ret, okret))
    if k == "BRec": return "{ zrec := %s; trace(c, zrec); return zrec, nil }" % rec
    if k == "BText": return "{ return string(c.text), nil }"
    if k == "BConst": return "{ return %s, nil }" % tag
    if k == "BLab": return "{ return %s, nil }" % b["args"][0]
    if k == "BFault": return "{ zrec := %s; trace(c, zrec); %s }" % (rec, faultsw("zrec, nil", "zrec,"))
    if k == "GInc": return "{ zrec := %s; trace(c, zrec); zn, _ := c.globalStore[%s].(int); c.globalStore[%s] = zn + 1; return zrec, nil }" % (rec, key, key)
    if k == "AMut": return "{ zrec := %s; trace(c, zrec); c.state[%s] = 77; return zrec, nil }" % (rec, key)
    if k == "PConst": return "{ trace(c, %s); return %s, nil }" % (rec, "true" if b["val"] else "false")
    if k == "PLab": return "{ trace(c, %s); zb, _ := %s.([]byte); return len(zb) > 0 && int(zb[0]) == %d, nil }" % (rec, b["args"][0], b["val"])
    if k == "PState": return "{ zv := stInt(c, %s); trace(c, []any{%s, zv}); return zv%%2 == %d, nil }" % (key, tag, b["val"])
    if k == "PMut": return "{ c.state[%s] = 99; return true, nil }" % key
    if k == "PFault": return "{ trace(c, %s); %s }" % (rec, faultsw("true, nil", "true,"))
    if k == "SSet": return "{ trace(c, []any{%s, stInt(c, %s)}); c.state[%s] = %d; return nil }" % (tag, key, key, b["val"])
    if k == "SInc": return "{ zv := stInt(c, %s); trace(c, []any{%s, zv}); c.state[%s] = zv + 1; return nil }" % (key, tag, key)
    if k == "SBox": return "{ zb := c.state[%s].(box); trace(c, []any{%s, *zb.p}); *zb.p++; return nil }" % (key, tag)
    if k == "SFault": return "{ trace(c, %s); %s }" % (rec, faultsw("nil", ""))
    raise ValueError(k)

def pe(e, ctx):
    s = pe1(e)
    if level(e) < ctx:
        return "( " + s + " )"
    return s

def pe1(e):
    k = e["k"]
    if k == "lit": return go_quote(e["v"]) + ("i" if e["i"] else "")
    if k == "cls": return cls_raw(e)
    if k == "any": return "."
    if k == "ref": return e["name"]
    if k == "seq": return " ".join(pe(x, 4) for x in e["kids"])
    if k == "choice": return " / ".join(pe(x, 2) for x in e["kids"])
    if k == "star": return pe(e["kids"][0], 7) + "*"
    if k == "plus": return pe(e["kids"][0], 7) + "+"
    if k == "opt": return pe(e["kids"][0], 7) + "?"
    if k == "and": return "&" + pe(e["kids"][0], 6)
    if k == "not": return "!" + pe(e["kids"][0], 6)
    if k == "label": return e["name"] + ":" + pe(e["kids"][0], 5)
    if k == "act": return pe(e["kids"][0], 3) + " " + block_code(e)
    if k == "andcode": return "&" + block_code(e)
    if k == "notcode": return "!" + block_code(e)
    if k == "state": return "#" + block_code(e)
    if k == "throw": return "%{" + e["name"] + "}"
    if k == "recover":
        return pe(e["kids"][0], 0 if e["kids"][0]["k"] == "recover" else 1) + " //{" + ", ".join(e["labels"]) + "} " + pe(e["kids"][1], 1)
    raise ValueError(k)

INIT_COMMON = '''
func trace(c *current, r any) {
	if p, ok := c.globalStore["trace"].(*[]any); ok {
		*p = append(*p, r)
	}
}

func mkrec(c *current, tag string, args ...any) []any {
	r := []any{tag, string(c.text), c.pos.line, c.pos.col, c.pos.offset}
	return append(r, args...)
}
'''

INIT_FAULT = '''
var errA = errors.New("errA")
var errB = errors.New("errB")
var faultPlan [8][3]int
var faultCnt [8]int

// SetFaultPlan installs the fault plan of the next Parse (harness hook of the catalogue).
func SetFaultPlan(p [8][3]int) {
	faultPlan = p
	faultCnt = [8]int{}
}

func fault(k int) int {
	j := faultCnt[k]
	faultCnt[k]++
	if j < 3 {
		return faultPlan[k][j]
	}
	return 0
}
'''

INIT_STATE = '''
type box struct{ p *int }

func (b box) Clone() any { v := *b.p; return box{&v} }

// NewBox returns a fresh Cloner value for InitState (harness hook of the catalogue).
func NewBox() any { return box{new(int)} }

func stInt(c *current, k string) int {
	switch v := c.state[k].(type) {
	case int:
		return v
	case box:
		return *v.p
	}
	return 0
}
'''

def print_peg(g, pkg):
    assign_args(g)
    out = ["{", "package " + pkg, ""]
    out.append(INIT_COMMON)
    if uses_fault(g):
        out.append(INIT_FAULT)
    if uses_state(g):
        out.append(INIT_STATE)
    out.append("}")
    out.append("")
    for r in g["rules"]:
        disp = (" " + go_quote(r["display"])) if r.get("display") else ""
        out.append("%s%s <- %s" % (r["name"], disp, pe(r["expr"], 0)))
        out.append("")
    return "\n".join(out)

# ----------------------------------------------------------------- reference literal

KINDS = {"lit": "Lit", "cls": "Cls", "any": "Any", "seq": "Seq", "choice": "Choice", "star": "Star",
         "plus": "Plus", "opt": "Opt", "and": "And", "not": "Not", "label": "Label", "ref": "Ref",
         "act": "Act", "andcode": "AndCode", "notcode": "NotCode", "state": "State", "throw": "Throw",
         "recover": "Recover"}

def go_str(s):
    return json.dumps(s, ensure_ascii=True).replace("\\u", "\\u")

def go_runes(chars):
    return "[]rune{" + ", ".join("0x%x" % ord(c) for c in chars) + "}"

def go_node(e):
    k = e["k"]
    f = ["Kind: ref.%s" % KINDS[k]]
    if k == "lit":
        f.append("Val: %s" % go_str(e["v"]))
        f.append("IgnoreCase: %s" % ("true" if e["i"] else "false"))
        f.append("Want: %s" % go_str(want(e)))
    elif k == "cls":
        f.append("Chars: %s" % go_runes(e["chars"]))
        f.append("Ranges: %s" % go_runes("".join(lo + hi for lo, hi in e["ranges"])))
        if e["classes"]:
            f.append("Classes: []string{%s}" % ", ".join(go_str(c) for c in e["classes"]))
        f.append("Inverted: %s" % ("true" if e["inv"] else "false"))
        f.append("IgnoreCase: %s" % ("true" if e["i"] else "false"))
        f.append("Want: %s" % go_str(want(e)))
    elif k in ("ref", "label", "throw"):
        f.append("Val: %s" % go_str(e["name"]))
    if k == "recover":
        f.append("Labels: []string{%s}" % ", ".join(go_str(l) for l in e["labels"]))
    if "block" in e:
        b = e["block"]
        bf = ["Kind: ref.%s" % b["bk"], "Tag: %s" % go_str(b["tag"])]
        if b["args"]:
            bf.append("Args: []string{%s}" % ", ".join(go_str(a) for a in b["args"]))
        if "key" in b: bf.append("Key: %s" % go_str(b["key"]))
        if "val" in b: bf.append("Val: %d" % b["val"])
        if "slot" in b: bf.append("Slot: %d" % b["slot"])
        f.append("Block: &ref.Block{%s}" % ", ".join(bf))
    if e.get("kids"):
        f.append("Kids: []*ref.Node{%s}" % ", ".join(go_node(x) for x in e["kids"]))
    return "{" + ", ".join(f) + "}"

def go_ref(g, var="refG"):
    assign_args(g)
    rs = []
    for r in g["rules"]:
        disp = ""
        if r.get("display"):
            # pigeon shows the display name as written, quotes included
            disp = ", Display: %s" % go_str(go_quote(r["display"]))
        lr = ", LR: true" if r.get("lr") else ""
        rs.append("\t{Name: %s%s%s, Expr: &ref.Node%s}," % (go_str(r["name"]), disp, lr, go_node(r["expr"])))
    return "var %s = &ref.Grammar{Rules: []*ref.Rule{\n%s\n}}\n" % (var, "\n".join(rs))

def terminals_alphabet(g):
    """bytes occurring in the grammar's terminals, both cases"""
    bs = set()
    def f(e):
        if e["k"] == "lit":
            for ch in e["v"]:
                for v in (ch, ch.lower(), ch.upper()):
                    bs.update(v.encode("utf-8"))
        elif e["k"] == "cls":
            for ch in e["chars"]:
                for v in (ch, ch.lower(), ch.upper()):
                    bs.update(v.encode("utf-8"))
            for lo, hi in e["ranges"]:
                for ch in (lo, hi):
                    for v in (ch, ch.lower(), ch.upper()):
                        bs.update(v.encode("utf-8"))
                # an interior character and the two neighbours just outside (ASCII ranges)
                if ord(lo) < 127 and ord(hi) < 127 and ord(lo) <= ord(hi):
                    for c in ((ord(lo) + ord(hi)) // 2, ord(lo) - 1, ord(hi) + 1):
                        if 32 <= c < 127:
                            bs.add(c)
        b = e.get("block")
        if b and b["bk"] == "PLab":
            bs.add(b["val"])
    for r in g["rules"]:
        walk(r["expr"], f)
    return sorted(bs)


# ----------------------------------------------------------------- printing with positions + expected AST dump (C03/C20)

class PosPrinter:
    """Prints a gspec grammar and records, for every node, the offset of its
    first token, so that the AST the text denotes can be predicted including
    positions."""

    def __init__(self, sep=" ", ruleop="<-", rule_end="\n\n"):
        self.buf = []
        self.n = 0
        self.sep, self.ruleop, self.rule_end = sep, ruleop, rule_end
        self.sep_offs = []  # offsets of the layout between two tokens inside expressions

    def ws(self, extra_before="", extra_after=""):
        """layout between two tokens of an expression (a `__` of the grammar)"""
        self.w(extra_before)
        self.sep_offs.append(self.n)
        self.w(self.sep)
        self.w(extra_after)

    def w(self, s):
        self.buf.append(s)
        self.n += len(s.encode("utf-8"))

    def text(self):
        return "".join(self.buf)

    def emit(self, e, ctx):
        if level(e) < ctx:
            self.w("(")
            self.ws()
            self.emit1(e)
            self.ws()
            self.w(")")
        else:
            self.emit1(e)

    def code(self, e, intro=""):
        self.w(intro)
        e["_codeoff"] = self.n
        self.w(block_code(e))

    def emit1(self, e):
        k = e["k"]
        if k not in ("recover",):
            e["_off"] = self.n
        if k == "lit": self.w(go_quote(e["v"]) + ("i" if e["i"] else ""))
        elif k == "cls": self.w(cls_raw(e))
        elif k == "any": self.w(".")
        elif k == "ref": self.w(e["name"])
        elif k == "seq":
            for i, x in enumerate(e["kids"]):
                if i: self.ws()
                self.emit(x, 4)
        elif k == "choice":
            for i, x in enumerate(e["kids"]):
                if i:
                    self.ws()
                    self.w("/")
                    self.ws()
                self.emit(x, 2)
        elif k in ("star", "plus", "opt"):
            self.emit(e["kids"][0], 7)
            self.w({"star": "*", "plus": "+", "opt": "?"}[k])
        elif k in ("and", "not"):
            self.w("&" if k == "and" else "!")
            self.emit(e["kids"][0], 6)
        elif k == "label":
            self.w(e["name"] + ":")
            self.emit(e["kids"][0], 5)
        elif k == "act":
            self.emit(e["kids"][0], 3)
            self.ws()
            self.code(e)
        elif k == "andcode": self.code(e, "&")
        elif k == "notcode": self.code(e, "!")
        elif k == "state": self.code(e, "#")
        elif k == "throw": self.w("%{" + e["name"] + "}")
        elif k == "recover":
            e["_off"] = self.n
            self.emit(e["kids"][0], 0 if e["kids"][0]["k"] == "recover" else 1)
            self.ws()
            # layout is allowed around every token of the label list ( "//{" __ label __ "," __ label __ "}" )
            self.w("//{")
            self.ws()
            for i, l in enumerate(e["labels"]):
                if i:
                    self.ws()
                    self.w(",")
                    self.ws()
                self.w(l)
            self.ws()
            self.w("}")
            self.ws()
            self.emit(e["kids"][1], 1)
        else:
            raise ValueError(k)


def print_grammar_pos(g, pkg, sep=" ", ruleop="<-", rule_end="\n\n", with_init=True):
    """Returns (text, g) with _off annotations; the initializer is a minimal package clause."""
    assign_args(g)
    p = PosPrinter(sep, ruleop, rule_end)
    if with_init:
        g["_initoff"] = p.n
        g["_init"] = "{\npackage " + pkg + "\n}"
        p.w(g["_init"])
        p.w("\n\n")
    else:
        g["_init"] = None
    for r in g["rules"]:
        r["_off"] = p.n
        p.w(r["name"])
        if r.get("display"):
            p.w(" " + go_quote(r["display"]))
        p.w(sep + ruleop + sep)
        p.emit(r["expr"], 0)
        p.w(rule_end)
    g["_sep_offs"] = list(p.sep_offs)
    return p.text(), g


def linecol(text_bytes, off):
    """pigeon's position of byte offset off (ASCII-only layouts: col counts bytes of ASCII; general: runes)."""
    before = text_bytes[:off]
    line = 1 + before.count(b"\n")
    last = before.rfind(b"\n")
    col = len(before[last + 1:].decode("utf-8", "replace")) + 1
    if off < len(text_bytes) and text_bytes[off:off + 1] == b"\n":
        line, col = line + 1, 0
    return line, col


def go_any(v):
    if v is None: return "nil"
    if isinstance(v, bool): return "true" if v else "false"
    if isinstance(v, int): return str(v)
    if isinstance(v, str): return go_str(v)
    if isinstance(v, tuple) and v[0] == "rune": return "rune(0x%x)" % v[1]
    if isinstance(v, list): return "[]any{" + ", ".join(go_any(x) for x in v) + "}"
    raise ValueError(v)


def expected_dump(g, text, with_pos=True):
    """The AST the printed text denotes, in the format of harness/astdump_main.go."""
    tb = text.encode("utf-8")
    def pos(off):
        if not with_pos: return [0, 0, 0]
        l, c = linecol(tb, off)
        return [l, c, off]
    def code(e):
        return ["code"] + pos(e["_codeoff"]) + [block_code(e)]
    def ex(e):
        k = e["k"]
        p = pos(e["_off"])
        if k == "lit": return ["lit"] + p + [e["v"], e["i"]]
        if k == "cls":
            return ["cls"] + p + [cls_raw(e), [("rune", ord(c)) for c in e["chars"]],
                                  [("rune", ord(c)) for lo, hi in e["ranges"] for c in (lo, hi)], list(e["classes"]), e["inv"], e["i"]]
        if k == "any": return ["any"] + p
        if k in ("seq", "choice"): return [k] + p + [ex(x) for x in e["kids"]]
        if k in ("star", "plus", "opt", "and", "not"): return [k] + p + [ex(e["kids"][0])]
        if k == "label": return ["label"] + p + [e["name"], ex(e["kids"][0])]
        if k == "ref": return ["ref"] + p + [e["name"]]
        if k == "act": return ["act"] + p + [code(e), ex(e["kids"][0])]
        if k in ("andcode", "notcode", "state"): return [k] + p + [code(e)]
        if k == "throw": return ["throw"] + p + [e["name"]]
        if k == "recover": return ["recover"] + p + [list(e["labels"]), ex(e["kids"][0]), ex(e["kids"][1])]
        raise ValueError(k)
    out = ["G"] + pos(0)
    if g.get("_init"):
        out.append(["code"] + pos(g["_initoff"]) + [g["_init"]])
    else:
        out.append(None)
    for r in g["rules"]:
        disp = go_quote(r["display"]) if r.get("display") else ""
        out.append(["R"] + pos(r["_off"]) + [r["name"], disp, ex(r["expr"])])
    return out

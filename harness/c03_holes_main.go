package main

// C03 hole families: concrete grammar skeletons with a few symbolic bytes.
// Only what the property states is asserted: text in the documented syntax is
// accepted and yields the denoted AST (nothing is demanded for invalid text).

import (
	"unicode/utf8"

	"github.com/mna/pigeon/ast"
)

func c03IsLayout(b byte) bool {
	return b == ' ' || b == '\t' || b == '\r' || b == '\n'
}

// Harness_C03layout: arg = case*c03MaxSeps + separator index; c03HoleLen
// symbolic layout bytes are inserted between two tokens of an expression.
func Harness_C03layout(arg int) {
	ci, si := arg/c03MaxSeps, arg%c03MaxSeps
	cs := c03Layout[ci]
	symAssume(si < len(cs.seps))
	off := cs.seps[si]
	hole := symBytes("h", c03HoleLen)
	for _, b := range hole {
		symAssume(symInSet(b, " \t\r\n"))
	}
	text := append([]byte{}, cs.text[:off]...)
	text = append(text, hole...)
	text = append(text, cs.text[off:]...)
	g, err := Parse("", text)
	symNote(cs.name)
	symAssert(err == nil, "C03: a layout of blanks, tabs and newlines between tokens was rejected")
	if err == nil {
		symAssert(symEqual(symDumpGrammar(g.(*ast.Grammar), false), cs.want), "C03: layout between tokens changed the AST")
	}
	symReach("end")
}

// Harness_C03term: the end of a rule (or of the initializer) written in each documented way, with symbolic layout
// in front of it: a semicolon after any layout (blanks, tabs, carriage returns, newlines), or an end of line after
// blanks. The skeleton text ends every rule with two newlines; they are replaced by the terminator under test.
func Harness_C03term(arg int) {
	ci, si := arg/c03MaxTerms, arg%c03MaxTerms
	cs := c03Term[ci]
	symAssume(si < len(cs.seps))
	off := cs.seps[si]
	hole := symBytes("h", c03HoleLen)
	semi := symBool("semicolon")
	follow := symBool("newline_after")
	var ins []byte
	if semi {
		for _, b := range hole {
			symAssume(symInSet(b, " \t\r\n"))
		}
		ins = append(append([]byte{}, hole...), ';')
		if follow {
			ins = append(ins, '\n')
		}
	} else {
		for _, b := range hole {
			symAssume(symInSet(b, " \t\r"))
		}
		ins = append(append([]byte{}, hole...), '\n')
		if follow {
			ins = append(ins, '\n')
		}
	}
	text := append([]byte{}, cs.text[:off]...)
	text = append(text, ins...)
	text = append(text, cs.text[off+2:]...)
	g, err := Parse("", text)
	symNote(cs.name)
	symAssert(err == nil, "C03: a documented rule terminator (semicolon after layout, or end of line after blanks) was rejected")
	if err == nil {
		symAssert(symEqual(symDumpGrammar(g.(*ast.Grammar), false), cs.want), "C03: the way a rule is terminated changed the AST")
	}
	symReach("end")
}

// Harness_C03comment: a comment with symbolic content between two tokens.
func Harness_C03comment(arg int) {
	ci, si := arg/c03MaxSeps, arg%c03MaxSeps
	cs := c03Layout[ci]
	symAssume(si < len(cs.seps))
	off := cs.seps[si]
	body := symBytes("h", 2)
	line := symBool("linecomment")
	var ins []byte
	if line {
		// "//{" opens a recovery operator, not a comment
		symAssume(body[0] != '\n' && body[1] != '\n' && body[0] != '{')
		symAssume(body[0] < 0x80 && body[1] < 0x80) // the grammar must be UTF-8 text
		// (a space first: directly behind a "/" token the two slashes would pair up differently)
		ins = append([]byte(" //"), body...)
		ins = append(ins, '\n')
	} else {
		symAssume(!(body[0] == '*' && body[1] == '/'))
		symAssume(body[0] < 0x80 && body[1] < 0x80) // the grammar must be UTF-8 text
		symAssume(body[1] != '*')                   // would pair with the closing "/" and leave a stray "*/"... keep the comment well-formed
		ins = append([]byte(" /*"), body...)
		ins = append(ins, '*', '/')
	}
	text := append([]byte{}, cs.text[:off]...)
	text = append(text, ins...)
	text = append(text, cs.text[off:]...)
	g, err := Parse("", text)
	symNote(cs.name)
	symAssert(err == nil, "C03: a comment between tokens was rejected")
	if err == nil {
		symAssert(symEqual(symDumpGrammar(g.(*ast.Grammar), false), cs.want), "C03: a comment between tokens changed the AST")
	}
	symReach("end")
}

// ---- escapes: reference decoder written from the documentation (the escapes
// of Go string literals; \' only in single quotes, \" only in double quotes,
// \] only in classes)

func c03Hex(b byte) (int, bool) {
	switch {
	case b >= '0' && b <= '9':
		return int(b - '0'), true
	case b >= 'a' && b <= 'f':
		return int(b-'a') + 10, true
	case b >= 'A' && b <= 'F':
		return int(b-'A') + 10, true
	}
	return 0, false
}

// refEscape decides whether esc (the bytes after the backslash) is exactly one
// valid escape for the quoting q ('"', '\”, ']') and returns the bytes it denotes.
func refEscape(esc []byte, q byte) (bool, []byte) {
	if len(esc) == 0 {
		return false, nil
	}
	e0 := esc[0]
	if len(esc) == 1 {
		switch e0 {
		case 'a':
			return true, []byte{7}
		case 'b':
			return true, []byte{8}
		case 'f':
			return true, []byte{12}
		case 'n':
			return true, []byte{10}
		case 'r':
			return true, []byte{13}
		case 't':
			return true, []byte{9}
		case 'v':
			return true, []byte{11}
		case '\\':
			return true, []byte{'\\'}
		}
		if e0 == q {
			return true, []byte{q}
		}
		return false, nil
	}
	if len(esc) == 3 && e0 == 'x' {
		h1, ok1 := c03Hex(esc[1])
		h2, ok2 := c03Hex(esc[2])
		if ok1 && ok2 {
			return true, []byte{byte(h1*16 + h2)}
		}
		return false, nil
	}
	if len(esc) == 3 && e0 >= '0' && e0 <= '7' {
		if esc[1] < '0' || esc[1] > '7' || esc[2] < '0' || esc[2] > '7' {
			return false, nil
		}
		v := int(e0-'0')*64 + int(esc[1]-'0')*8 + int(esc[2]-'0')
		if v > 255 {
			return false, nil
		}
		return true, []byte{byte(v)}
	}
	if (len(esc) == 5 && e0 == 'u') || (len(esc) == 9 && e0 == 'U') {
		v := 0
		for _, b := range esc[1:] {
			h, ok := c03Hex(b)
			if !ok {
				return false, nil
			}
			if v > 0x10FFFF {
				return false, nil
			}
			v = v*16 + h
		}
		if v > 0x10FFFF || (v >= 0xD800 && v <= 0xDFFF) {
			return false, nil
		}
		buf := make([]byte, 4)
		n := utf8.EncodeRune(buf, rune(v))
		return true, buf[:n]
	}
	return false, nil
}

// Harness_C03escape: arg = quoting*16 + escape length; the escape body is symbolic.
func Harness_C03escape(arg int) {
	qi, n := arg/16, arg%16
	if qi >= 2 {
		c03ClassEscape(qi-2, n)
		return
	}
	quotes := []byte{'"', '\''}
	q := quotes[qi]
	esc := symBytes("e", n)
	ok, want := refEscape(esc, q)
	symAssume(ok)
	text := []byte("A <- ")
	text = append(text, q, '\\')
	text = append(text, esc...)
	text = append(text, q, '\n')
	if q == '\'' {
		// a single-quoted literal holds exactly one character
		symAssume(len(want) >= 1)
	}
	g, err := Parse("", text)
	symAssert(err == nil, "C03: a documented escape sequence was rejected")
	if err == nil {
		lit, isLit := g.(*ast.Grammar).Rules[0].Expr.(*ast.LitMatcher)
		symAssert(isLit, "C03: escape literal did not yield a literal matcher")
		if isLit {
			symDebug("got", []byte(lit.Val))
			symDebug("want", want)
			symAssert(symEqual(lit.Val, string(want)), "C03: escape sequence decoded to a different value")
		}
	}
	symReach("end")
}

// Harness_C03litbody: the body of a literal without escapes is symbolic (ASCII,
// no backslash, not the closing quote; a double- or single-quoted literal holds
// no newline). The value is the body itself - for a back-quoted (raw) literal
// with the carriage returns discarded, as in Go. arg = quoting*8 + length.
func Harness_C03litbody(arg int) {
	qi, n := arg/8, arg%8
	quotes := []byte{'"', '\'', '`'}
	q := quotes[qi]
	body := symBytes("b", n)
	var want []byte
	for _, b := range body {
		symAssume(b < 0x80 && b != '\\' && b != q && b != 0)
		if q != '`' {
			symAssume(b != '\n')
		}
		if !(q == '`' && b == '\r') {
			want = append(want, b)
		}
	}
	if q == '\'' {
		symAssume(n == 1)
	}
	text := []byte("A <- ")
	text = append(text, q)
	text = append(text, body...)
	text = append(text, q, '\n')
	g, err := Parse("", text)
	symAssert(err == nil, "C03: a literal in the documented syntax was rejected")
	if err == nil {
		lit, isLit := g.(*ast.Grammar).Rules[0].Expr.(*ast.LitMatcher)
		symAssert(isLit, "C03: literal text did not yield a literal matcher")
		if isLit {
			symDebug("got", []byte(lit.Val))
			symDebug("want", want)
			symAssert(symEqual(lit.Val, string(want)), "C03: a literal denotes a different value than its text (raw literals discard carriage returns)")
		}
	}
	symReach("end")
}

// c03ClassEscape: the same escapes inside a class (\] instead of the quotes),
// alone (form 0) or as the low end of a range (form 1). An escape denotes one
// character: \xHH and \ooo the character with that code.
func c03ClassEscape(form, n int) {
	esc := symBytes("e", n)
	ok, want := refEscape(esc, ']')
	symAssume(ok)
	var r rune
	if len(esc) == 3 {
		r = rune(want[0])
	} else {
		r, _ = utf8.DecodeRune(want)
	}
	text := []byte("A <- [\\")
	text = append(text, esc...)
	if form == 1 {
		text = append(text, '-', '~')
	}
	text = append(text, ']', '\n')
	g, err := Parse("", text)
	symAssert(err == nil, "C03: a documented escape sequence inside a class was rejected")
	if err == nil {
		cc, isCls := g.(*ast.Grammar).Rules[0].Expr.(*ast.CharClassMatcher)
		symAssert(isCls, "C03: class text did not yield a class matcher")
		if isCls {
			symDebug("got", cc.Chars, cc.Ranges, "want", r)
			if form == 0 {
				symAssert(len(cc.Chars) == 1 && len(cc.Ranges) == 0 && cc.Chars[0] == r, "C03: escape inside a class denotes a different character")
			} else {
				symAssert(len(cc.Chars) == 0 && len(cc.Ranges) == 2 && cc.Ranges[0] == r && cc.Ranges[1] == '~', "C03: escape as range bound denotes a different character")
			}
		}
	}
	symReach("end")
}

// ---- character classes: reference for the documented notation

type c03Class struct {
	chars  []rune
	ranges []rune
}

// refClass: plain characters (no escapes) inside [...]: x-y between two
// characters is a range; a '-' first or last is a character.
func refClass(body []byte) c03Class {
	var rs []rune
	for i := 0; i < len(body); {
		r, w := utf8.DecodeRune(body[i:])
		rs = append(rs, r)
		i += w
	}
	var c c03Class
	for i := 0; i < len(rs); i++ {
		if i+2 < len(rs)+0 && rs[i+1] == '-' && i+2 <= len(rs)-1 {
			c.ranges = append(c.ranges, rs[i], rs[i+2])
			i += 2
			continue
		}
		c.chars = append(c.chars, rs[i])
	}
	return c
}

// c03ClassShapes: concrete text around the symbolic class-body bytes, so that
// the symbolic bytes also land behind a pending character, behind a complete
// range, between two ranges, and in front of a trailing dash.
var c03ClassShapes = [][2]string{
	{"", ""}, {"x", ""}, {"a-c", ""}, {"xa-c", ""}, {"", "a-c"}, {"x", "z"}, {"xa-c0-9", ""}, {"-", "-"}, {"xa-c", "e"},
}

// Harness_C03class: arg = 10*shape + number of symbolic class-body bytes.
func Harness_C03class(arg int) {
	shape, n := c03ClassShapes[arg/10], arg%10
	hole := symBytes("b", n)
	inv := symBool("inverted")
	ic := symBool("ignorecase")
	for i, b := range hole {
		// printable ASCII without the characters that need escaping
		symAssume(b >= 0x20 && b < 0x7f && b != ']' && b != '\\')
		if i == 0 && shape[0] == "" {
			symAssume(b != '^')
		}
	}
	body := append(append([]byte(shape[0]), hole...), shape[1]...)
	text := []byte("A <- [")
	if inv {
		text = append(text, '^')
	}
	text = append(text, body...)
	text = append(text, ']')
	if ic {
		text = append(text, 'i')
	}
	text = append(text, '\n')
	want := refClass(body)
	g, err := Parse("", text)
	symAssert(err == nil, "C03: a character class in the documented notation was rejected")
	if err == nil {
		cc, isCls := g.(*ast.Grammar).Rules[0].Expr.(*ast.CharClassMatcher)
		symAssert(isCls, "C03: class text did not yield a class matcher")
		if isCls {
			symAssert(cc.Inverted == inv && cc.IgnoreCase == ic, "C03: ^ / i flags of the class differ")
			symDebug("got", cc.Chars, cc.Ranges)
			symDebug("want", want.chars, want.ranges)
			symAssert(symEqual(symRunes(cc.Chars), symRunes(want.chars)), "C03: class characters differ from the documented notation")
			symAssert(symEqual(symRunes(cc.Ranges), symRunes(want.ranges)), "C03: class ranges differ from the documented notation")
		}
	}
	symReach("end")
}

// Harness_C03op: the operator characters of an expression are symbolic; the
// AST must be the one the binding strengths denote.
func Harness_C03op(arg int) {
	pre := symByte("prefix")
	suf := symByte("suffix")
	symAssume(symInSet(pre, "&! "))
	symAssume(symInSet(suf, "?*+ "))
	// x:<pre>'a'<suf> 'b' / 'c' { return nil, nil } //{l} 'd'
	text := []byte("A <- x:")
	text = append(text, pre)
	text = append(text, []byte("'a'")...)
	text = append(text, suf)
	text = append(text, []byte(" 'b' / 'c' { return nil, nil } //{l} 'd'\n")...)
	g, err := Parse("", text)
	symAssert(err == nil, "C03: operator combination rejected")
	if err == nil {
		var inner any = []any{"lit", 0, 0, 0, "a", false}
		switch suf {
		case '?':
			inner = []any{"opt", 0, 0, 0, inner}
		case '*':
			inner = []any{"star", 0, 0, 0, inner}
		case '+':
			inner = []any{"plus", 0, 0, 0, inner}
		}
		switch pre {
		case '&':
			inner = []any{"and", 0, 0, 0, inner}
		case '!':
			inner = []any{"not", 0, 0, 0, inner}
		}
		// recover < choice < action < sequence < label < prefix < suffix < primary
		want := []any{"recover", 0, 0, 0, []any{"l"},
			[]any{"choice", 0, 0, 0,
				[]any{"seq", 0, 0, 0, []any{"label", 0, 0, 0, "x", inner}, []any{"lit", 0, 0, 0, "b", false}},
				[]any{"act", 0, 0, 0, []any{"code", 0, 0, 0, "{ return nil, nil }"}, []any{"lit", 0, 0, 0, "c", false}}},
			[]any{"lit", 0, 0, 0, "d", false}}
		got := symDumpExpr(g.(*ast.Grammar).Rules[0].Expr, false)
		symDebug("got", got)
		symAssert(symEqual(got, want), "C03: binding strength of the operators differs from the documentation")
	}
	symReach("end")
}

// Harness_C03ident: rule and label identifiers with symbolic characters.
func Harness_C03ident(n int) {
	id := symBytes("i", n)
	for i, b := range id {
		if i == 0 {
			symAssume((b >= 'a' && b <= 'z') || (b >= 'A' && b <= 'Z') || b == '_')
		} else {
			symAssume((b >= 'a' && b <= 'z') || (b >= 'A' && b <= 'Z') || b == '_' || (b >= '0' && b <= '9'))
		}
	}
	// a Go keyword or predeclared name is not "a valid identifier" of the documentation
	symAssume(!reservedWords[string(id)])
	text := append([]byte{}, id...)
	text = append(text, []byte(" <- 'a' ")...)
	text = append(text, id...)
	text = append(text, '?', '\n')
	g, err := Parse("", text)
	symAssert(err == nil, "C03: identifier made of letters, digits and _ rejected as a rule name")
	if err == nil {
		r := g.(*ast.Grammar).Rules[0]
		symAssert(symEqual(r.Name.Val, string(id)), "C03: rule name differs from its spelling")
		want := []any{"seq", 0, 0, 0, []any{"lit", 0, 0, 0, "a", false}, []any{"opt", 0, 0, 0, []any{"ref", 0, 0, 0, string(id)}}}
		symAssert(symEqual(symDumpExpr(r.Expr, false), want), "C03: rule reference differs from its spelling")
	}
	symReach("end")
}

// ---- code blocks: where a block ends is decided by Go's lexical structure
// (strings, raw strings, rune literals, comments, nested braces). A concrete
// block holds a hole of symbolic bytes in one of those places, followed by text
// that would unbalance the braces if the hole were delimited wrongly.

type c03CodeForm struct {
	pre, post string
	kind      byte // '"' string content, '`' raw string content, '\'' rune literal, '/' line comment, '*' block comment, '{' braces
}

var c03CodeForms = []c03CodeForm{
	{`{ return f("`, `", "}/b{"), nil }`, '"'},
	{"{ return f(`", "`, \"}{\"), nil }", '`'},
	{`{ return f('`, `', '}', "{"), nil }`, '\''},
	{"{ x := 1 // ", "\n\treturn g(x, \"}\"), nil }", '/'},
	{`{ x := 1 /* `, ` */ return g(x, '{'), nil }`, '*'},
	{`{ if x { `, ` }; return "}", nil }`, '{'},
}

// c03StringContent: s is a sequence of ordinary characters and two-character
// escapes \\ \" \n \t (content of an interpreted string; for a rune literal one such unit).
func c03StringContent(s []byte, q byte, oneUnit bool) bool {
	units := 0
	for i := 0; i < len(s); i++ {
		b := s[i]
		if b < 0x20 || b >= 0x7f || b == q {
			return false
		}
		if b == '\\' {
			if i+1 >= len(s) {
				return false
			}
			e := s[i+1]
			if e != '\\' && e != q && e != 'n' && e != 't' {
				return false
			}
			i++
		}
		units++
	}
	return !oneUnit || units == 1
}

// Harness_C03code: arg = 8*form + number of symbolic bytes.
func Harness_C03code(arg int) {
	f, n := c03CodeForms[arg/8], arg%8
	hole := symBytes("c", n)
	switch f.kind {
	case '"':
		symAssume(c03StringContent(hole, '"', false))
	case '\'':
		symAssume(c03StringContent(hole, '\'', true))
	case '`':
		for _, b := range hole {
			symAssume(b >= 0x20 && b < 0x7f && b != '`')
		}
	case '/':
		for _, b := range hole {
			symAssume(b >= 0x20 && b < 0x7f)
		}
	case '*':
		for i, b := range hole {
			symAssume(b >= 0x20 && b < 0x7f)
			if i > 0 {
				symAssume(!(hole[i-1] == '*' && b == '/'))
			}
		}
		if n > 0 {
			// the hole is followed by " */": a trailing '*' would still be fine, a leading '/' after "/* " too
		}
	case '{':
		depth := 0
		for _, b := range hole {
			symAssume(b == '{' || b == '}' || b == ' ' || b == 'a' || b == ';')
			if b == '{' {
				depth++
			}
			if b == '}' {
				depth--
			}
			symAssume(depth >= 0)
		}
		symAssume(depth == 0)
	}
	code := f.pre + string(hole) + f.post
	text := []byte("A <- 'a' " + code + "\nB <- 'b'\n")
	g, err := Parse("", text)
	symAssert(err == nil, "C03: a code block in valid Go lexical structure was rejected")
	if err == nil {
		gr := g.(*ast.Grammar)
		symAssert(len(gr.Rules) == 2 && gr.Rules[1].Name.Val == "B", "C03: the end of a code block was found at the wrong place (rules differ)")
		if len(gr.Rules) >= 1 {
			act, isAct := gr.Rules[0].Expr.(*ast.ActionExpr)
			symAssert(isAct, "C03: the rule with a code block did not yield an action")
			if isAct {
				symAssert(symEqual(act.Code.Val, code), "C03: the text of the code block differs from the source text between its braces")
			}
		}
	}
	symReach("end")
}

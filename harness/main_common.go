package main

// Harness support injected into package main (the pigeon tool) through an
// overlay: the stages of main() below its I/O and flag handling.

import (
	"bytes"

	"github.com/mna/pigeon/ast"
	"github.com/mna/pigeon/builder"
)

type symGen struct {
	out      string
	perr     error // front-end error (main: exit 3)
	berr     error // build error (main: exit 5)
	panicked bool  // a Go panic left the pipeline (main: panic trace, exit 2)
	pmsg     string
	grammar  *ast.Grammar
}

type symFlags struct {
	optGrammar, optParser, basicLatin, leftRec, nolint bool
	altEntry                                           []string
}

// symSkipStatic: harnesses that explore many accepted grammars and do not look
// at the runtime text skip the expansion of the static-code template (about
// 700 000 interpreter steps per generation); a declared stub where it is set.
var symSkipStatic bool

// symGenerate replays main() from ParseReader to BuildParser, including the
// expansion of the static-code template (text/template and regexp run natively
// on their concrete arguments: engine intrinsics). goimports is not run: it is
// outside the engine's reach and is assumed not to depend on the
// grammar-specific state examined here.
func symGenerate(text []byte, f symFlags) (res symGen) {
	defer func() {
		if p := recover(); p != nil {
			res.panicked = true
			if e, ok := p.(error); ok {
				res.pmsg = e.Error()
			} else if s, ok := p.(string); ok {
				res.pmsg = s
			} else {
				res.pmsg = "panic"
			}
		}
	}()
	if symSkipStatic {
		symSkip("(*github.com/mna/pigeon/builder.builder).writeStaticCode")
	}
	g, err := Parse("", text)
	if err != nil {
		res.perr = err
		return
	}
	grammar := g.(*ast.Grammar)
	res.grammar = grammar
	if f.optGrammar {
		ast.Optimize(grammar, f.altEntry...)
	}
	var buf bytes.Buffer
	err = builder.BuildParser(&buf, grammar, builder.ReceiverName("c"), builder.Optimize(f.optParser),
		builder.BasicLatinLookupTable(f.basicLatin), builder.Nolint(f.nolint), builder.SupportLeftRecursion(f.leftRec))
	if err != nil {
		res.berr = err
		return
	}
	res.out = buf.String()
	return
}

package main

// Harness support injected into package main (the pigeon tool) through an
// overlay: the stages of main() below its I/O and flag handling.

import (
	"bytes"

	"github.com/mna/pigeon/ast"
	"github.com/mna/pigeon/builder"
)

type symGen struct {
	out      string
	perr     error // front-end error (main: exit 3)
	berr     error // build error (main: exit 5)
	panicked bool  // a Go panic left the pipeline (main: panic trace, exit 2)
	pmsg     string
	grammar  *ast.Grammar
}

type symFlags struct {
	optGrammar, optParser, basicLatin, leftRec, nolint bool
	altEntry                                         []string
}

// symGenerate replays main() from ParseReader to BuildParser. The static-code
// template expansion (text/template + regexp on constants) is skipped and
// goimports is not run: both are outside the engine's reach and are assumed
// not to depend on the grammar-specific state examined here.
func symGenerate(text []byte, f symFlags) (res symGen) {
	defer func() {
		if p := recover(); p != nil {
			res.panicked = true
			if e, ok := p.(error); ok {
				res.pmsg = e.Error()
			} else if s, ok := p.(string); ok {
				res.pmsg = s
			} else {
				res.pmsg = "panic"
			}
		}
	}()
	symSkip("(*github.com/mna/pigeon/builder.builder).writeStaticCode")
	g, err := Parse("", text)
	if err != nil {
		res.perr = err
		return
	}
	grammar := g.(*ast.Grammar)
	res.grammar = grammar
	if f.optGrammar {
		ast.Optimize(grammar, f.altEntry...)
	}
	var buf bytes.Buffer
	err = builder.BuildParser(&buf, grammar, builder.ReceiverName("c"), builder.Optimize(f.optParser),
		builder.BasicLatinLookupTable(f.basicLatin), builder.Nolint(f.nolint), builder.SupportLeftRecursion(f.leftRec))
	if err != nil {
		res.berr = err
		return
	}
	res.out = buf.String()
	return
}

package builder

// C04 (reduced claim, kernel): the names of the generated methods are
// injective in (rule name, expression index). Injected into package builder.

func c04IdentOK(s string) bool {
	ok := true
	for i := 0; i < len(s); i++ {
		if i == 0 {
			ok = symAnd(ok, symInSet(s[i], "ABCDEFGHIJKLMNOPQRSTUVWXYZabcdefghijklmnopqrstuvwxyz_"))
		} else {
			ok = symAnd(ok, symInSet(s[i], "ABCDEFGHIJKLMNOPQRSTUVWXYZabcdefghijklmnopqrstuvwxyz_0123456789"))
		}
	}
	return ok
}

// Harness_C04name: arg encodes the two name lengths (1..3 each).
func Harness_C04name(arg int) {
	l1, l2 := 1+arg%3, 1+arg/3
	r1 := symString("r1", l1)
	r2 := symString("r2", l2)
	symAssume(c04IdentOK(r1))
	symAssume(c04IdentOK(r2))
	i1 := symInt("i1", 1, 999)
	i2 := symInt("i2", 1, 999)
	nl := symBool("nolint")
	b1 := &builder{ruleName: r1, nolint: nl}
	b2 := &builder{ruleName: r2, nolint: nl}
	f1 := b1.funcName(i1)
	f2 := b2.funcName(i2)
	same := symAnd(symEqual(r1, r2), i1 == i2)
	if l1 != l2 {
		// the only way two names of different length can meet on the unchanged tree: the longer one ends in digits (finding F4)
		symAssert(symOr(symNot(symEqual(f1, f2)), same), "C04: two different (rule, expression index) pairs get the same method name (rule names of different length: a name that ends in digits)")
	} else {
		symAssert(symOr(symNot(symEqual(f1, f2)), same), "C04: two different (rule, expression index) pairs get the same method name (rule names of equal length)")
	}
	symReach("end")
}

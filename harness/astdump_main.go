package main

// Canonical dump of a grammar AST as nested []any (kind, line, col, offset,
// attributes, children); compared with symEqual against the tree the
// catalogue printer predicts. Injected into package main through an overlay.

import "github.com/mna/pigeon/ast"

func symPos(p ast.Pos, withPos bool) (int, int, int) {
	if !withPos {
		return 0, 0, 0
	}
	return p.Line, p.Col, p.Off
}

func symDumpCode(c *ast.CodeBlock, wp bool) any {
	if c == nil {
		return nil
	}
	l, co, o := symPos(c.Pos(), wp)
	return []any{"code", l, co, o, c.Val}
}

func symRunes(rs []rune) []any {
	out := make([]any, 0, len(rs))
	for _, r := range rs {
		out = append(out, r)
	}
	return out
}

func symStrings(ss []string) []any {
	out := make([]any, 0, len(ss))
	for _, s := range ss {
		out = append(out, s)
	}
	return out
}

func symDumpGrammar(g *ast.Grammar, wp bool) any {
	l, c, o := symPos(g.Pos(), wp)
	out := []any{"G", l, c, o, symDumpCode(g.Init, wp)}
	for _, r := range g.Rules {
		rl, rc, ro := symPos(r.Pos(), wp)
		disp := ""
		if r.DisplayName != nil {
			disp = r.DisplayName.Val
		}
		out = append(out, []any{"R", rl, rc, ro, r.Name.Val, disp, symDumpExpr(r.Expr, wp)})
	}
	return out
}

func symDumpExpr(e ast.Expression, wp bool) any {
	if e == nil {
		return nil
	}
	l, c, o := symPos(e.Pos(), wp)
	switch x := e.(type) {
	case *ast.LitMatcher:
		return []any{"lit", l, c, o, x.Val, x.IgnoreCase}
	case *ast.CharClassMatcher:
		return []any{"cls", l, c, o, x.Val, symRunes(x.Chars), symRunes(x.Ranges), symStrings(x.UnicodeClasses), x.Inverted, x.IgnoreCase}
	case *ast.AnyMatcher:
		return []any{"any", l, c, o}
	case *ast.SeqExpr:
		out := []any{"seq", l, c, o}
		for _, k := range x.Exprs {
			out = append(out, symDumpExpr(k, wp))
		}
		return out
	case *ast.ChoiceExpr:
		out := []any{"choice", l, c, o}
		for _, k := range x.Alternatives {
			out = append(out, symDumpExpr(k, wp))
		}
		return out
	case *ast.ZeroOrMoreExpr:
		return []any{"star", l, c, o, symDumpExpr(x.Expr, wp)}
	case *ast.OneOrMoreExpr:
		return []any{"plus", l, c, o, symDumpExpr(x.Expr, wp)}
	case *ast.ZeroOrOneExpr:
		return []any{"opt", l, c, o, symDumpExpr(x.Expr, wp)}
	case *ast.AndExpr:
		return []any{"and", l, c, o, symDumpExpr(x.Expr, wp)}
	case *ast.NotExpr:
		return []any{"not", l, c, o, symDumpExpr(x.Expr, wp)}
	case *ast.LabeledExpr:
		return []any{"label", l, c, o, x.Label.Val, symDumpExpr(x.Expr, wp)}
	case *ast.RuleRefExpr:
		return []any{"ref", l, c, o, x.Name.Val}
	case *ast.ActionExpr:
		return []any{"act", l, c, o, symDumpCode(x.Code, wp), symDumpExpr(x.Expr, wp)}
	case *ast.AndCodeExpr:
		return []any{"andcode", l, c, o, symDumpCode(x.Code, wp)}
	case *ast.NotCodeExpr:
		return []any{"notcode", l, c, o, symDumpCode(x.Code, wp)}
	case *ast.StateCodeExpr:
		return []any{"state", l, c, o, symDumpCode(x.Code, wp)}
	case *ast.ThrowExpr:
		return []any{"throw", l, c, o, x.Label}
	case *ast.RecoveryExpr:
		labels := make([]any, 0, len(x.Labels))
		for _, fl := range x.Labels {
			labels = append(labels, string(fl))
		}
		return []any{"recover", l, c, o, labels, symDumpExpr(x.Expr, wp), symDumpExpr(x.RecoverExpr, wp)}
	}
	return []any{"unknown"}
}

package main

// C13, exit wiring of the real main(): flag handling, the order of the stages,
// the exit status of every failing stage, and what is written to the output.
// In the engine main() runs on an argument vector built from symbolic flag
// booleans; the grammar text is a virtual standard input (input(), bufio and
// io.ReadAll are the real code), output() and imports.Process are replaced by
// in-memory stubs (declared). Natively the same harness runs main() on real files in a
// scratch directory with the real goimports, so every counterexample replays.
//
// Oracle: the stages replayed by symGenerate (front end, optimizer, builder) on
// the same text and flags say which stage fails; main() must exit 0 exactly
// when none does, print a diagnostic otherwise, and never let a Go panic out.

import (
	"errors"
	"io"
	"os"
	"path/filepath"
	"strings"

	"golang.org/x/tools/imports"
)

type c13MainCase struct {
	name, text string
	badGo      bool // a code block that is not Go: goimports fails (exit 6, unformatted output)
}

const c13BadGoMarker = "1 +, nil"

var c13MainCases = []c13MainCase{
	{"valid", "{\npackage p\n}\nA <- 'a' B { return 1, nil }\nB <- [b-c]*\n", false},
	{"parse_error", "{\npackage p\n}\nA <- 'a' B {\nB <- [b-c]*\n", false},
	{"left_recursive", "{\npackage p\n}\nA <- A 'a' / B\nB <- 'b'\n", false},
	{"bad_go", "{\npackage p\n}\nA <- 'a' B { return " + c13BadGoMarker + " }\nB <- 'b'\n", true},
	{"throw_recover_state", "{\npackage p\n}\nA <- #{ return nil } B //{l} 'x'\nB <- 'b' / %{l}\n", false},
	{"undefined_ref", "{\npackage p\n}\nA <- 'a' C\nB <- 'b'\n", false},
}

type c13WC struct {
	buf    []byte
	writes int
}

func (w *c13WC) Write(p []byte) (int, error) {
	w.buf = append(w.buf, p...)
	w.writes++
	return len(p), nil
}
func (w *c13WC) Close() error { return nil }

type c13ExitT struct{ code int }

var (
	c13Exited   bool
	c13ExitCode int
)

// c13RunMain runs main() with exit replaced the way the repository's own
// TestMain does it; the first exit wins (the process would be gone).
func c13RunMain() (code int, panicked bool, pmsg string) {
	c13Exited, c13ExitCode = false, 0
	old := exit
	exit = func(c int) {
		if !c13Exited {
			c13Exited, c13ExitCode = true, c
		}
		panic(c13ExitT{c})
	}
	defer func() {
		exit = old
		if p := recover(); p != nil {
			if _, ok := p.(c13ExitT); ok {
				code = c13ExitCode
				return
			}
			if s, ok := p.(string); ok && strings.HasPrefix(s, "os.Exit(") {
				// package flag exits by itself on a malformed command line
				code = 2
				return
			}
			if c13Exited {
				code = c13ExitCode
				return
			}
			panicked = true
			if e, ok := p.(error); ok {
				pmsg = e.Error()
			} else if s, ok := p.(string); ok {
				pmsg = s
			} else {
				pmsg = "panic"
			}
		}
	}()
	main()
	if c13Exited {
		return c13ExitCode, false, ""
	}
	return 0, false, ""
}

// Harness_C13main: arg = case*8 + (optGrammar | leftRec<<1 | noBuild<<2); the
// other flags are symbolic booleans (in the quick tier -optimize-basic-latin, -nolint and
// -cache are tied to the two symbolic ones), the alternate entry point list and one
// byte appended to the grammar text are symbolic.
func Harness_C13main(arg int) {
	cs := c13MainCases[arg/8]
	bits := arg % 8
	optParser, noRecover := symBool("optParser"), symBool("noRecover")
	f := symFlags{optGrammar: bits&1 != 0, leftRec: bits&2 != 0, optParser: optParser}
	noBuild := bits&4 != 0
	var cache bool
	if c13MainFull {
		f.basicLatin, f.nolint, cache = symBool("basicLatin"), symBool("nolint"), symBool("cache")
	} else {
		// quick tier: three flags that do not take part in the exit wiring ride along with the two symbolic ones
		f.basicLatin, f.nolint, cache = noRecover, optParser, optParser
	}
	text := []byte(cs.text)
	tail := symByte("tail")
	// the appended byte: layout, the start of a comment or rule, or garbage
	if c13MainFull {
		symAssume(symInSet(tail, "\n ;/#Z<'\x00\xff"))
	} else {
		symAssume(symInSet(tail, "\n Z\xff"))
	}
	text = append(text, tail)
	altKind := symChoose("alt", 4)
	var alt []string
	altArg := ""
	switch altKind {
	case 1:
		alt, altArg = []string{"B"}, "B"
	case 2:
		alt, altArg = []string{"Zz"}, "Zz"
	case 3:
		alt, altArg = []string{"B", ""}, "B," // empty names are skipped by main()
	}
	f.altEntry = nil
	for _, a := range alt {
		if a != "" {
			f.altEntry = append(f.altEntry, a)
		}
	}

	// what the stages say
	want := symGenerate(append([]byte(nil), text...), f)
	altOK := true
	if want.perr == nil && want.grammar != nil {
		for _, a := range f.altEntry {
			found := false
			for _, r := range want.grammar.Rules {
				if r.Name.Val == a {
					found = true
				}
			}
			if !found {
				altOK = false
			}
		}
	}
	if want.panicked {
		// a panic inside a stage is the subject of the other C13 harnesses
		symNote("stage panic")
		symReach("end")
		return
	}
	// symGenerate has optimized want.grammar in place; main() parses its own copy

	args := []string{"pigeon"}
	add := func(on bool, fl string) {
		if on {
			args = append(args, fl)
		}
	}
	add(cache, "-cache")
	add(noRecover, "-no-recover")
	add(f.nolint, "-nolint")
	add(f.basicLatin, "-optimize-basic-latin")
	add(f.optGrammar, "-optimize-grammar")
	add(f.optParser, "-optimize-parser")
	add(f.leftRec, "-support-left-recursion")
	add(noBuild, "-x")
	if altKind != 0 {
		args = append(args, "-alternate-entrypoints", altArg)
	}

	var outBytes []byte
	diag := ""
	wrote := false
	if symIsSymbolic() {
		// the grammar arrives on (virtual) standard input: input(), bufio and io.ReadAll are the real code
		wc := &c13WC{}
		symSetStdin(text)
		symStub("github.com/mna/pigeon.output", func(filename string) io.WriteCloser { return wc })
		symStub("golang.org/x/tools/imports.Process", func(filename string, src []byte, opt *imports.Options) ([]byte, error) {
			if strings.Contains(string(src), c13BadGoMarker) {
				return nil, errors.New("expected operand")
			}
			return src, nil
		})
		os.Args = args
		code, panicked, pmsg := c13RunMain()
		outBytes, wrote, diag = wc.buf, wc.writes > 0, symOSOutput()
		c13MainAsserts(cs, f, noBuild, want, altOK, code, panicked, pmsg, outBytes, wrote, diag, true)
		return
	}
	dir, err := os.MkdirTemp("", "c13main")
	if err != nil {
		panic(err)
	}
	defer os.RemoveAll(dir)
	in, out, errp := filepath.Join(dir, "g.peg"), filepath.Join(dir, "out.go"), filepath.Join(dir, "stderr")
	if err := os.WriteFile(in, text, 0o644); err != nil {
		panic(err)
	}
	ef, err := os.Create(errp)
	if err != nil {
		panic(err)
	}
	oldErr, oldArgs := os.Stderr, os.Args
	os.Stderr = ef
	os.Args = append(append(args, "-o", out), in)
	code, panicked, pmsg := c13RunMain()
	os.Stderr, os.Args = oldErr, oldArgs
	ef.Close()
	eb, _ := os.ReadFile(errp)
	ob, oerr := os.ReadFile(out)
	c13MainAsserts(cs, f, noBuild, want, altOK, code, panicked, pmsg, ob, oerr == nil && len(ob) > 0, string(eb), false)
}

func c13MainAsserts(cs c13MainCase, f symFlags, noBuild bool, want symGen, altOK bool, code int, panicked bool, pmsg string, out []byte, wrote bool, diag string, engine bool) {
	symDebug("exit", code, panicked, pmsg)
	if panicked {
		symAssert(false, "C13: a Go panic leaves main() (the tool prints a panic trace instead of a diagnostic): "+pmsg)
		symReach("end")
		return
	}
	stageOK := want.perr == nil && altOK && (noBuild || (want.berr == nil && !cs.badGo))
	switch {
	case want.perr != nil:
		symNote("parse error")
	case !altOK:
		symNote("argument error")
	case noBuild:
		symNote("parse only")
	case want.berr != nil:
		symNote("build error")
	case cs.badGo:
		symNote("format error")
	default:
		symNote("accepted")
	}
	symAssert(stageOK || code != 0, "C13: exit status 0 although a stage of the tool failed (a rejected grammar never produces exit status 0)")
	symAssert(!stageOK || code == 0, "C13: non-zero exit status although every stage succeeded")
	if !stageOK {
		symAssert(len(diag) > 0, "C13: non-zero exit without a diagnostic on stderr")
		symAssert(!strings.Contains(diag, "goroutine ") && !strings.Contains(diag, "panic:"), "C13: panic trace in the diagnostic")
	}
	if stageOK && !noBuild && code == 0 {
		symAssert(wrote && len(out) > 0, "C13: exit status 0 but no parser was written")
		if engine {
			// goimports is the identity stub and the static code is skipped in both runs
			symAssert(string(out) == want.out, "C13: the text written differs from what BuildParser produced")
		} else {
			symAssert(strings.Contains(string(out), "func Parse(") && strings.Contains(string(out), "var g = &grammar{"), "C13: the parser written is incomplete")
		}
		_, ok := c13Complete(string(out))
		symAssert(ok, "C13: the tool reports success but the emitted parser refers to a code-block method it does not define (partial output)")
	}
	if noBuild && code == 0 {
		symAssert(!wrote, "C13: -x (parse only) wrote output")
	}
	symReach("end")
}

// Harness_C13maintext: the whole grammar text is symbolic and arrives on the
// standard input of the real main() (default flags, -x symbolic): whatever the
// bytes are, the tool exits with a status that fits the stage results and
// without a Go panic. arg = length*16 + bucket of the first byte.
func Harness_C13maintext(arg int) {
	n, b := arg/c13Buckets, arg%c13Buckets
	text := symBytes("g", n)
	if n == 0 {
		symAssume(b == 0)
	} else {
		symAssume(text[0] >= byte(b*16))
		symAssume(text[0] <= byte(b*16+15))
	}
	noBuild := symBool("noBuild")
	symSkipStatic = true
	want := symGenerate(append([]byte(nil), text...), symFlags{})
	if want.panicked {
		symNote("stage panic")
		symReach("end")
		return
	}
	args := []string{"pigeon"}
	if noBuild {
		args = append(args, "-x")
	}
	cs := c13MainCase{name: "text"}
	if symIsSymbolic() {
		wc := &c13WC{}
		symSetStdin(text)
		symStub("github.com/mna/pigeon.output", func(filename string) io.WriteCloser { return wc })
		symStub("golang.org/x/tools/imports.Process", func(filename string, src []byte, opt *imports.Options) ([]byte, error) { return src, nil })
		os.Args = args
		code, panicked, pmsg := c13RunMain()
		c13MainAsserts(cs, symFlags{}, noBuild, want, true, code, panicked, pmsg, wc.buf, wc.writes > 0, symOSOutput(), true)
		return
	}
	dir, err := os.MkdirTemp("", "c13maintext")
	if err != nil {
		panic(err)
	}
	defer os.RemoveAll(dir)
	in, out, errp := filepath.Join(dir, "g.peg"), filepath.Join(dir, "out.go"), filepath.Join(dir, "stderr")
	if err := os.WriteFile(in, text, 0o644); err != nil {
		panic(err)
	}
	ef, err := os.Create(errp)
	if err != nil {
		panic(err)
	}
	oldErr, oldArgs := os.Stderr, os.Args
	os.Stderr = ef
	os.Args = append(append(args, "-o", out), in)
	code, panicked, pmsg := c13RunMain()
	os.Stderr, os.Args = oldErr, oldArgs
	ef.Close()
	eb, _ := os.ReadFile(errp)
	ob, oerr := os.ReadFile(out)
	c13MainAsserts(cs, symFlags{}, noBuild, want, true, code, panicked, pmsg, ob, oerr == nil && len(ob) > 0, string(eb), false)
}

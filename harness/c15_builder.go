package builder

// C15 kernel: for EVERY Unicode class name the front end accepts, with and
// without the i flag, the precomputed Basic Latin decision of the real
// BasicLatinLookup equals the general matching procedure (the rune, lower-cased
// under i, looked up in the class's range table) for a symbolic rune below 128.
// The range tables are taken from package unicode directly, not through the
// builder's own rangeTable helper.

import "unicode"

func c15Table(name string) *unicode.RangeTable {
	if rt, ok := unicode.Categories[name]; ok {
		return rt
	}
	if rt, ok := unicode.Properties[name]; ok {
		return rt
	}
	if rt, ok := unicode.Scripts[name]; ok {
		return rt
	}
	return nil
}

// Harness_C15kernel: arg = 2*class index + ignoreCase.
func Harness_C15kernel(arg int) {
	name := c15Classes[arg/2]
	ic := arg%2 == 1
	rt := c15Table(name)
	symAssert(rt != nil, "C15 kernel: a class name the front end accepts is unknown to package unicode")
	if rt == nil {
		return
	}
	table := BasicLatinLookup(nil, nil, []string{name}, ic)
	cur := symInt("cur", 0, 127)
	r := rune(cur)
	if ic {
		r = unicode.ToLower(r)
	}
	want := unicode.Is(rt, r)
	symNote(name)
	symAssert(table[cur] == want, "C15: the precomputed Basic Latin decision for a Unicode class differs from the general matching procedure")
	symReach("end")
}

package main

// C20(a): the hand-written bootstrap front end and the generated pigeon front
// end build structurally identical ASTs on texts of the bootstrap subset
// (positions and display-name quoting aside).

import (
	"bytes"
	"errors"

	"github.com/mna/pigeon/ast"
	"github.com/mna/pigeon/bootstrap"
)

// c20Strip removes what the property excludes: display names (quoting differs).
func c20Strip(t any) any {
	n, ok := t.([]any)
	if !ok {
		return t
	}
	out := make([]any, len(n))
	for i, k := range n {
		out[i] = c20Strip(k)
	}
	if len(out) > 5 {
		if kind, _ := out[0].(string); kind == "R" {
			out[5] = ""
		}
	}
	return out
}

func c20Both(text []byte) (bg, pg *ast.Grammar, berr, perr error) {
	func() {
		// a text on which the hand-written front end panics (it does on an unterminated
		// class, `[` + newline: ast.NewCharClassMatcher("[")) is not in the bootstrap
		// subset; C20 says nothing about it
		defer func() {
			if r := recover(); r != nil {
				bg, berr = nil, errors.New("bootstrap front end panicked")
				symNote("bootstrap-panic")
			}
		}()
		bp := bootstrap.NewParser()
		bg, berr = bp.Parse("", bytes.NewReader(text))
	}()
	g, err := Parse("", text)
	perr = err
	if err == nil {
		pg = g.(*ast.Grammar)
	}
	return
}

func c20Compare(text []byte, what string) {
	bg, pg, berr, perr := c20Both(text)
	// the subset is what the bootstrap front end understands
	symAssume(berr == nil)
	symAssert(perr == nil, "C20: the pigeon front end rejected a text of the bootstrap subset ("+what+")")
	if berr == nil && perr == nil {
		b := c20Strip(symDumpGrammar(bg, false))
		p := c20Strip(symDumpGrammar(pg, false))
		symDebug("bootstrap", b)
		symDebug("pigeon", p)
		symAssert(symEqual(b, p), "C20: the two front ends built different ASTs ("+what+")")
	}
	symReach("end")
}

// Harness_C20rt: concrete texts of the catalogue (bootstrap subset).
func Harness_C20rt(n int) {
	cs := c20Cases[n]
	symNote(cs.name)
	c20Compare([]byte(cs.text), "catalogue text")
}

// Harness_C20layout: symbolic layout bytes between two tokens.
func Harness_C20layout(arg int) {
	ci, si := arg/c20MaxSeps, arg%c20MaxSeps
	cs := c20Layout[ci]
	symAssume(si < len(cs.seps))
	off := cs.seps[si]
	hole := symBytes("h", c20HoleLen)
	for _, b := range hole {
		symAssume(symInSet(b, " \t\r\n"))
	}
	text := append([]byte{}, cs.text[:off]...)
	text = append(text, hole...)
	text = append(text, cs.text[off:]...)
	symNote(cs.name)
	c20Compare(text, "layout")
}

// Harness_C20term: the end of a rule / of the initializer written with symbolic layout in front of a semicolon or
// of the end of the line (as Harness_C03term); whatever of it the bootstrap front end accepts, the pigeon front end
// must accept with the same AST.
func Harness_C20term(arg int) {
	ci, si := arg/c20MaxTerms, arg%c20MaxTerms
	cs := c20Term[ci]
	symAssume(si < len(cs.seps))
	off := cs.seps[si]
	hole := symBytes("h", c20HoleLen)
	semi := symBool("semicolon")
	var ins []byte
	if semi {
		for _, b := range hole {
			symAssume(symInSet(b, " \t\r\n"))
		}
		ins = append(append([]byte{}, hole...), ';', '\n')
	} else {
		for _, b := range hole {
			symAssume(symInSet(b, " \t\r"))
		}
		ins = append(append([]byte{}, hole...), '\n')
	}
	text := append([]byte{}, cs.text[:off]...)
	text = append(text, ins...)
	text = append(text, cs.text[off+2:]...)
	symNote(cs.name)
	c20Compare(text, "rule terminator")
}

// Harness_C20escape: a valid escape (per the reference decoder of C03) in a
// double- or single-quoted literal.
func Harness_C20escape(arg int) {
	qi, n := arg/16, arg%16
	quotes := []byte{'"', '\''}
	symAssume(qi < 2)
	q := quotes[qi]
	esc := symBytes("e", n)
	ok, _ := refEscape(esc, q)
	symAssume(ok)
	text := []byte("A <- ")
	text = append(text, q, '\\')
	text = append(text, esc...)
	text = append(text, q, '\n')
	c20Compare(text, "escape")
}

// Harness_C20class: class bodies of printable ASCII characters.
func Harness_C20class(n int) {
	body := symBytes("b", n)
	inv := symBool("inverted")
	ic := symBool("ignorecase")
	for i, b := range body {
		symAssume(b >= 0x20 && b < 0x7f && b != ']' && b != '\\')
		if i == 0 {
			symAssume(b != '^')
		}
	}
	text := []byte("A <- [")
	if inv {
		text = append(text, '^')
	}
	text = append(text, body...)
	text = append(text, ']')
	if ic {
		text = append(text, 'i')
	}
	text = append(text, '\n')
	c20Compare(text, "class")
}

// Harness_C20op: prefix and suffix operators symbolic.
func Harness_C20op(arg int) {
	pre := symByte("prefix")
	suf := symByte("suffix")
	symAssume(symInSet(pre, "&! "))
	symAssume(symInSet(suf, "?*+ "))
	text := []byte("A <- x:")
	text = append(text, pre)
	text = append(text, []byte("'a'")...)
	text = append(text, suf)
	text = append(text, []byte(" 'b' / 'c' { return nil, nil } / ( B 'd' )*\nB <- .\n")...)
	c20Compare(text, "operators")
}

// Harness_C20free: symbolic bytes from the characters that mean something to
// either front end, inserted into a concrete text - between tokens, inside a
// multi-line comment, a line comment, after a label, inside a class, inside a
// string, inside a code block, inside a raw string, directly behind a literal
// and directly behind a class (where an i suffix may or may not follow). Whatever the hole contains: if the bootstrap front end accepts the
// text, pigeon accepts it and builds the same AST.
var c20Free = [][2]string{
	{"A <- 'a' ", " 'c'\n"},
	{"A <- 'a' /*", " 'b' */ 'c'\n"},
	{"A <- 'a' //", "\nB <- 'b'\n"},
	{"A <- x:", "'c' / 'd'\n"},
	{"A <- [a", "] 'c'\n"},
	{"A <- \"a", "\" 'c'\n"},
	{"A <- 'a' {", " return nil, nil }\nB <- 'b'\n"},
	{"A <- `a", "` 'c'\n"},
	{"A <- 'a'", " 'c'\n"},
	{"A <- [a]", " 'c'\n"},
	{"A <- '1'", " \"2\"\n"},
}

const c20FreeAlphabet = "/*'\"aB()[]<-=:;{}?+!&.^\\i \n\r`"

const c20CodeAlphabet = "aB()[]<-=:;{}?+!&.^i \n\r"

func Harness_C20free(arg int) {
	sk, n := c20Free[arg/8], arg%8
	hole := symBytes("f", n)
	for _, b := range hole {
		if arg/8 == 6 {
			// inside a code block the text is Go: quotes and comment starters would have to be balanced the Go way
			// (pigeon checks that, the bootstrap scanner only counts braces) - not part of the common subset
			symAssume(symInSet(b, c20CodeAlphabet))
		} else {
			symAssume(symInSet(b, c20FreeAlphabet))
		}
	}
	text := append(append([]byte(sk[0]), hole...), sk[1]...)
	c20Compare(text, "free hole")
}

package builder

// C07(a): the left-recursion analysis of the real builder (PrepareGrammar and
// everything below it, including the NullableVisit/IsNullable/InitialNames
// methods of package ast) against the syntactic reference "reflr" below, over
// a family of grammars whose rule bodies are chosen lazily from a menu.
//
// Injected into package builder through an overlay; nothing is written to /repo.

import (
	"bytes"
	"errors"

	"github.com/mna/pigeon/ast"
)

var c07Names = []string{"A", "B"}

const (
	kLitA = iota
	kEmpty
	kAny
	kPred
	// one referenced rule
	kRef
	kAnd
	kNot
	kOpt
	kStar
	kPlus
	kLabel
	kChoiceFirst  // ( R / 'a' )
	kChoiceSecond // ( 'a' / R )
	kAct
	kRecover        // R //{l} 'a'
	kSeqOptRef      // ( 'a'? R )
	kPlusNRef       // ( N R )+      N <- 'n'?  is a fixed nullable rule
	kStarLitRef     // ( 'a' R )*
	kChoicePredRef  // ( !'x' / R )        a nullable alternative that can fail, then the reference
	kChoicePredNRef // ( !'x' / N R 'y' )  the same with a nullable rule in front of the reference
	kRecThrowRef    // ( T 'z' ) //{l} R   T <- 'b' / %{l}: R runs where the throw happens, possibly at the start of the rule
	kOptNRef        // ( N R 'y' )?        nullable on its own, the reference behind a nullable rule that sorts after A and B
	kStarNRef       // ( N R 'y' )*
	kRecToA         // R //{l} A           the recovery expression is rule A (runs where a throw of l happens inside R)
	kRecToB         // R //{l} B
	kNumRefKinds
	kRefT = kNumRefKinds // T                   reference to the fixed throwing rule T <- 'b' / %{l} (extra menu item behind the others)
)

const c07Terminals = kRef
const c07RefKinds = kNumRefKinds - kRef

func c07MenuSize() int { return c07Terminals + c07RefKinds*len(c07Names) + 1 }

type c07Desc struct {
	kind int
	ref  int
}

func c07Decode(k int) c07Desc {
	if k < c07Terminals {
		return c07Desc{kind: k, ref: -1}
	}
	k -= c07Terminals
	if k >= c07RefKinds*len(c07Names) {
		return c07Desc{kind: kRefT, ref: -1}
	}
	return c07Desc{kind: kRef + k/len(c07Names), ref: k % len(c07Names)}
}

func c07Ref(name string) *ast.RuleRefExpr {
	r := ast.NewRuleRefExpr(ast.Pos{})
	r.Name = ast.NewIdentifier(ast.Pos{}, name)
	return r
}

func c07Seq(es ...ast.Expression) *ast.SeqExpr {
	s := ast.NewSeqExpr(ast.Pos{})
	s.Exprs = es
	return s
}

func c07Make(d c07Desc) ast.Expression {
	var p ast.Pos
	lit := func(s string) ast.Expression { return ast.NewLitMatcher(p, s) }
	switch d.kind {
	case kLitA:
		return lit("a")
	case kEmpty:
		return lit("")
	case kAny:
		return ast.NewAnyMatcher(p, ".")
	case kPred:
		e := ast.NewAndCodeExpr(p)
		e.Code = ast.NewCodeBlock(p, "{ return true, nil }")
		return e
	case kRefT:
		return c07Ref("T")
	}
	r := c07Ref(c07Names[d.ref])
	switch d.kind {
	case kRef:
		return r
	case kAnd:
		e := ast.NewAndExpr(p)
		e.Expr = r
		return e
	case kNot:
		e := ast.NewNotExpr(p)
		e.Expr = r
		return e
	case kOpt:
		e := ast.NewZeroOrOneExpr(p)
		e.Expr = r
		return e
	case kStar:
		e := ast.NewZeroOrMoreExpr(p)
		e.Expr = r
		return e
	case kPlus:
		e := ast.NewOneOrMoreExpr(p)
		e.Expr = r
		return e
	case kLabel:
		e := ast.NewLabeledExpr(p)
		e.Label = ast.NewIdentifier(p, "x")
		e.Expr = r
		return e
	case kChoiceFirst:
		e := ast.NewChoiceExpr(p)
		e.Alternatives = []ast.Expression{r, lit("a")}
		return e
	case kChoiceSecond:
		e := ast.NewChoiceExpr(p)
		e.Alternatives = []ast.Expression{lit("a"), r}
		return e
	case kAct:
		e := ast.NewActionExpr(p)
		e.Expr = r
		e.Code = ast.NewCodeBlock(p, "{ return nil, nil }")
		return e
	case kRecover:
		e := ast.NewRecoveryExpr(p)
		e.Expr = r
		e.RecoverExpr = lit("a")
		e.Labels = []ast.FailureLabel{"l"}
		return e
	case kSeqOptRef:
		o := ast.NewZeroOrOneExpr(p)
		o.Expr = lit("a")
		return c07Seq(o, r)
	case kPlusNRef:
		e := ast.NewOneOrMoreExpr(p)
		e.Expr = c07Seq(c07Ref("N"), r)
		return e
	case kStarLitRef:
		e := ast.NewZeroOrMoreExpr(p)
		e.Expr = c07Seq(lit("a"), r)
		return e
	case kOptNRef:
		e := ast.NewZeroOrOneExpr(p)
		e.Expr = c07Seq(c07Ref("N"), r, lit("y"))
		return e
	case kStarNRef:
		e := ast.NewZeroOrMoreExpr(p)
		e.Expr = c07Seq(c07Ref("N"), r, lit("y"))
		return e
	case kRecToA, kRecToB:
		e := ast.NewRecoveryExpr(p)
		e.Expr = r
		if d.kind == kRecToA {
			e.RecoverExpr = c07Ref("A")
		} else {
			e.RecoverExpr = c07Ref("B")
		}
		e.Labels = []ast.FailureLabel{"l"}
		return e
	case kRecThrowRef:
		e := ast.NewRecoveryExpr(p)
		e.Expr = c07Seq(c07Ref("T"), lit("z"))
		e.RecoverExpr = r
		e.Labels = []ast.FailureLabel{"l"}
		return e
	case kChoicePredRef, kChoicePredNRef:
		n := ast.NewNotExpr(p)
		n.Expr = lit("x")
		e := ast.NewChoiceExpr(p)
		if d.kind == kChoicePredRef {
			e.Alternatives = []ast.Expression{n, r}
		} else {
			e.Alternatives = []ast.Expression{n, c07Seq(c07Ref("N"), r, lit("y"))}
		}
		return e
	}
	panic("c07Make: bad kind")
}

// lazySlot is an expression chosen from the menu on first use. The analysis
// only talks to expressions through the ast.Expression interface, so a slot it
// never asks about stands for every completion.
type lazySlot struct {
	id     string
	fixed  int // >= 0: predetermined menu item
	forced bool
	d      c07Desc
	real   ast.Expression
}

func (l *lazySlot) force() ast.Expression {
	if !l.forced {
		k := l.fixed
		if k < 0 {
			k = symChoose(l.id, c07MenuSize())
		}
		l.d = c07Decode(k)
		l.real = c07Make(l.d)
		l.forced = true
	}
	return l.real
}

func (l *lazySlot) Pos() ast.Pos                              { return ast.Pos{} }
func (l *lazySlot) NullableVisit(r map[string]*ast.Rule) bool { return l.force().NullableVisit(r) }
func (l *lazySlot) IsNullable() bool                          { return l.force().IsNullable() }
func (l *lazySlot) InitialNames() map[string]struct{}         { return l.force().InitialNames() }

// ---- reference: syntactic nullable / first-call analysis (least fixpoint)

type c07Rule struct {
	slots []*lazySlot
}

func reflrSlotNullable(d c07Desc, ruleNull []bool) bool {
	switch d.kind {
	case kLitA, kAny:
		return false
	case kEmpty, kPred, kAnd, kNot, kOpt, kStar, kStarLitRef, kChoicePredRef, kChoicePredNRef, kOptNRef, kStarNRef:
		return true
	case kRef, kLabel, kAct, kPlus, kChoiceFirst, kChoiceSecond, kRecover, kSeqOptRef, kRecToA, kRecToB:
		return ruleNull[d.ref]
	case kRefT:
		return false // 'b' / %{l}: matches 'b', or ends in a throw (whatever follows is then not at the same position for sure: approx)
	case kPlusNRef:
		return ruleNull[d.ref] // N is nullable
	case kRecThrowRef:
		return false // the guarded sequence ends with 'z'
	}
	panic("reflr: kind")
}

// reflr returns whether the grammar has a cycle in its first-call graph.
func reflr(rules []*c07Rule) (cyclic bool, illFormed bool, approx bool, throwOnly bool) {
	n := len(rules)
	null := make([]bool, n)
	for changed := true; changed; {
		changed = false
		for i, r := range rules {
			if null[i] {
				continue
			}
			all := true
			for _, s := range r.slots {
				s.force()
				if !reflrSlotNullable(s.d, null) {
					all = false
					break
				}
			}
			if all {
				null[i] = true
				changed = true
			}
		}
	}
	// node n is the fixed rule T <- 'b' / %{l}: it calls nothing itself, but its throw runs the recovery
	// expression of every handler for l in whose guarded expression it is (transitively, at initial
	// positions) evaluated
	const tNode = 2
	edge := make([][]bool, n+1)
	edge[tNode] = make([]bool, n+1)
	type handler struct{ guarded, recovery int }
	var handlers []handler
	for i, r := range rules {
		edge[i] = make([]bool, n+1)
		for _, s := range r.slots {
			s.force()
			switch s.d.kind {
			case kRefT:
				edge[i][tNode] = true
				approx = true
			case kRecThrowRef:
				edge[i][tNode] = true
				handlers = append(handlers, handler{tNode, s.d.ref})
			case kRecToA:
				handlers = append(handlers, handler{s.d.ref, 0})
				approx = true
			case kRecToB:
				handlers = append(handlers, handler{s.d.ref, 1})
				approx = true
			}
			if s.d.ref >= 0 && s.d.kind != kStarLitRef {
				// ( 'a' R )* : R is only called after 'a' has consumed input
				edge[i][s.d.ref] = true
				// a repetition whose body can match without consuming is not a
				// well-formed grammar (it cannot terminate): outside the claim
				if (s.d.kind == kStar || s.d.kind == kPlus || s.d.kind == kPlusNRef) && null[s.d.ref] {
					illFormed = true
				}
			}
			if s.d.kind == kRecThrowRef && null[s.d.ref] {
				// pigeon documents no nullability rule for a recovery operator; it treats
				// E //{l} R as nullable when R is. Whether what follows can start the rule
				// is then a matter of definition: only "a cycle is never accepted" is asserted.
				approx = true
			}
			if !reflrSlotNullable(s.d, null) {
				break
			}
		}
	}
	closure := func(e [][]bool) [][]bool {
		m := len(e)
		c := make([][]bool, m)
		for i := range e {
			c[i] = append([]bool(nil), e[i]...)
		}
		for k := 0; k < m; k++ {
			for i := 0; i < m; i++ {
				for j := 0; j < m; j++ {
					if c[i][k] && c[k][j] {
						c[i][j] = true
					}
				}
			}
		}
		return c
	}
	hasCycle := func(c [][]bool) bool {
		for i := range c {
			if c[i][i] {
				return true
			}
		}
		return false
	}
	plain := closure(edge)
	plainCyclic := hasCycle(plain)
	// throw edges: T -> recovery rule of every handler whose guarded rule reaches T (or is T)
	for _, h := range handlers {
		if h.guarded == tNode || plain[h.guarded][tNode] {
			edge[tNode][h.recovery] = true
		}
	}
	cyclic = hasCycle(closure(edge))
	throwOnly = cyclic && !plainCyclic
	return
}

func c07Describe(rules []*c07Rule) string {
	s := ""
	for i, r := range rules {
		s += c07Names[i] + ":"
		for _, sl := range r.slots {
			if sl.forced {
				s += " " + string(rune('a'+sl.d.kind))
				if sl.d.ref >= 0 {
					s += c07Names[sl.d.ref]
				}
			} else {
				s += " _"
			}
		}
		s += "; "
	}
	return s
}

const c07Slots = 2

// c07Real: the completed grammar out of real ast nodes only (a slot nobody asked
// about stands as 'a', which is what its zero descriptor denotes).
func c07Real(rules []*c07Rule) *ast.Grammar {
	g := ast.NewGrammar(ast.Pos{})
	for i, cr := range rules {
		seq := ast.NewSeqExpr(ast.Pos{})
		for _, sl := range cr.slots {
			seq.Exprs = append(seq.Exprs, c07Make(sl.d))
		}
		r := ast.NewRule(ast.Pos{}, ast.NewIdentifier(ast.Pos{}, c07Names[i]))
		r.Expr = seq
		g.Rules = append(g.Rules, r)
	}
	nr := ast.NewRule(ast.Pos{}, ast.NewIdentifier(ast.Pos{}, "N"))
	no := ast.NewZeroOrOneExpr(ast.Pos{})
	no.Expr = ast.NewLitMatcher(ast.Pos{}, "n")
	nr.Expr = no
	g.Rules = append(g.Rules, nr)
	tr := ast.NewRule(ast.Pos{}, ast.NewIdentifier(ast.Pos{}, "T"))
	tc := ast.NewChoiceExpr(ast.Pos{})
	th := ast.NewThrowExpr(ast.Pos{})
	th.Label = "l"
	tc.Alternatives = []ast.Expression{ast.NewLitMatcher(ast.Pos{}, "b"), th}
	tr.Expr = tc
	g.Rules = append(g.Rules, tr)
	return g
}

// c07Build: what the user sees. The completed grammar is handed to the real
// BuildParser with default options, i.e. without -support-left-recursion: it
// must be rejected when it has a first-call cycle and accepted when it has none.
func c07Build(rules []*c07Rule, want, approx, throwOnly bool) {
	symSkip("(*github.com/mna/pigeon/builder.builder).writeStaticCode")
	var buf bytes.Buffer
	berr := BuildParser(&buf, c07Real(rules))
	if want && throwOnly {
		symAssert(berr != nil, "C07: BuildParser without -support-left-recursion accepted a grammar with a cycle through a throw that is recovered by a handler of another rule")
	} else if want {
		symAssert(berr != nil, "C07: BuildParser without -support-left-recursion accepted a grammar with a first-call cycle")
	} else if !approx {
		symAssert(berr == nil, "C07: BuildParser rejected a grammar without a first-call cycle")
	}
}

// c07Explore runs the analysis on the grammar with lazy slots. Its only purpose
// is to let the analysis decide which slots matter (one path then stands for
// every completion of the slots nobody asked about - as long as the analysis
// talks to expressions through the ast.Expression interface). Nothing is
// asserted about this run: an analysis that inspects node types (ast.Walk,
// type switches) does not know the harness type and may panic or skip it; the
// assertions below are all about the grammar rebuilt from real nodes.
func c07Explore(g *ast.Grammar) (interfaceOnly bool) {
	defer func() {
		if p := recover(); p != nil {
			interfaceOnly = false
		}
	}()
	_, _ = PrepareGrammar(g)
	return true
}

// Harness_C07a: n fixes the first slot of rule A (splits the family into
// independent jobs); every other slot is chosen lazily.
func Harness_C07a(n int) {
	g := ast.NewGrammar(ast.Pos{})
	var rules []*c07Rule
	for i, nm := range c07Names {
		cr := &c07Rule{}
		seq := ast.NewSeqExpr(ast.Pos{})
		for j := 0; j < c07Slots; j++ {
			sl := &lazySlot{id: "slot_" + nm + string(rune('0'+j)), fixed: -1}
			if i == 0 && j == 0 {
				sl.fixed = n
			}
			cr.slots = append(cr.slots, sl)
			seq.Exprs = append(seq.Exprs, sl)
		}
		r := ast.NewRule(ast.Pos{}, ast.NewIdentifier(ast.Pos{}, nm))
		r.Expr = seq
		g.Rules = append(g.Rules, r)
		rules = append(rules, cr)
	}
	// the fixed nullable rule N <- 'n'?
	nr := ast.NewRule(ast.Pos{}, ast.NewIdentifier(ast.Pos{}, "N"))
	no := ast.NewZeroOrOneExpr(ast.Pos{})
	no.Expr = ast.NewLitMatcher(ast.Pos{}, "n")
	nr.Expr = no
	g.Rules = append(g.Rules, nr)

	// the fixed throwing rule T <- 'b' / %{l}
	tr := ast.NewRule(ast.Pos{}, ast.NewIdentifier(ast.Pos{}, "T"))
	tc := ast.NewChoiceExpr(ast.Pos{})
	th := ast.NewThrowExpr(ast.Pos{})
	th.Label = "l"
	tc.Alternatives = []ast.Expression{ast.NewLitMatcher(ast.Pos{}, "b"), th}
	tr.Expr = tc
	g.Rules = append(g.Rules, tr)

	if !c07Explore(g) {
		symNote("lazy slots not applicable: the analysis inspects node types")
	}
	want, ill, approx, throwOnly := reflr(rules)
	symAssume(!ill)
	symNote(c07Describe(rules))
	have, err := PrepareGrammar(c07Real(rules))
	if err != nil {
		// no leader candidate: the tool rejects the grammar also with the flag; it
		// must then really be left-recursive
		symAssert(errors.Is(err, ErrNoLeader), "C07: unexpected error from PrepareGrammar")
		symAssert(want || approx, "C07: left-recursion error for a grammar without a first-call cycle")
		c07Build(rules, want, approx, throwOnly)
		symReach("end")
		return
	}
	symDebug("grammar", c07Describe(rules), have, want)
	if want && throwOnly {
		symAssert(have, "C07: left recursion through a throw that is recovered by a handler of another rule not detected (grammar would be accepted without -support-left-recursion)")
	} else if want {
		symAssert(have, "C07: left recursion not detected (grammar would be accepted without -support-left-recursion)")
	} else if !approx {
		symAssert(!have, "C07: grammar without a first-call cycle reported as left-recursive")
	}
	c07Build(rules, want, approx, throwOnly)
	symReach("end")
}

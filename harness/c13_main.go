package main

import "strings"

// C13: the tool is total. (i) the whole grammar text is symbolic; (ii) one or
// two symbolic bytes replace the bytes at a position of a catalogue grammar.

const c13Buckets = 16

func c13Outcome(res symGen) string {
	switch {
	case res.panicked:
		return "panic"
	case res.perr != nil:
		return "parse error"
	case res.berr != nil:
		return "build error"
	}
	return "accepted"
}

func c13Flags() symFlags {
	return symFlags{optGrammar: symBool("optGrammar"), leftRec: symBool("leftRec"), optParser: symBool("optParser")}
}

// c13Complete: every code-block method the emitted grammar literal refers to
// ("run: (*parser).callonX") is defined in the emitted text.
func c13Complete(out string) (string, bool) {
	const ref = "(*parser).callon"
	for i := 0; ; {
		k := strings.Index(out[i:], ref)
		if k < 0 {
			break
		}
		i += k + len(ref)
		j := i
		for j < len(out) && (out[j] == '_' || out[j] >= '0' && out[j] <= '9' || out[j] >= 'a' && out[j] <= 'z' || out[j] >= 'A' && out[j] <= 'Z' || out[j] >= 0x80) {
			j++
		}
		name := "callon" + out[i:j]
		if !strings.Contains(out, "func (p *parser) "+name+"(") {
			return name, false
		}
		i = j
	}
	return "", true
}

func c13Check(text []byte, f symFlags) {
	res := symGenerate(text, f)
	symNote(c13Outcome(res))
	symAssert(!res.panicked, "C13: a Go panic leaves the pipeline (the tool prints a panic trace instead of a diagnostic)")
	if res.perr != nil {
		// a rejected grammar never reaches the builder; the error carries a position or cause
		symAssert(len(res.perr.Error()) > 0, "C13: empty diagnostic")
	}
	if !res.panicked && res.perr == nil && res.berr == nil {
		missing, ok := c13Complete(res.out)
		symDebug("missing", missing)
		symAssert(ok, "C13: the tool reports success but the emitted parser refers to a code-block method it does not define (partial output)")
	}
	symReach("end")
}

// Harness_C13text: arg = length*c13Buckets + bucket of the first byte.
func Harness_C13text(arg int) {
	symSkipStatic = true
	n, b := arg/c13Buckets, arg%c13Buckets
	text := symBytes("g", n)
	if n == 0 {
		symAssume(b == 0)
	} else {
		symAssume(text[0] >= byte(b*16))
		symAssume(text[0] <= byte(b*16+15))
	}
	c13Check(text, c13Flags())
}

// Harness_C13mut: arg = grammar*c13MaxLen + position; c13Width symbolic bytes
// replace the bytes at that position.
func Harness_C13mut(arg int) {
	symSkipStatic = true
	gi, pos := arg/c13MaxLen, arg%c13MaxLen
	src := c13Grammars[gi]
	symAssume(pos+c13Width <= len(src))
	text := []byte(src)
	sub := symBytes("m", c13Width)
	for i := 0; i < c13Width; i++ {
		text[pos+i] = sub[i]
	}
	c13Check(text, c13Flags())
}

// Harness_C13chain: arg = depth d of the reference chain R0 <- R1? R1?, ...,
// Rd <- "a" (a valid grammar without left recursion of 14 bytes per rule). The
// tool must terminate on it like on any other text; the nullable analysis
// visits a referenced rule once per reference, i.e. 2^d times (finding F18).
func Harness_C13chain(d int) {
	symSkipStatic = true
	text := []byte("{\npackage p\n}\n")
	digits := func(n int) []byte {
		if n < 10 {
			return []byte{byte('0' + n)}
		}
		return []byte{byte('0' + n/10), byte('0' + n%10)}
	}
	for i := 0; i < d; i++ {
		text = append(text, 'R')
		text = append(text, digits(i)...)
		text = append(text, " <- R"...)
		text = append(text, digits(i+1)...)
		text = append(text, "? R"...)
		text = append(text, digits(i+1)...)
		text = append(text, "?\n"...)
	}
	text = append(text, 'R')
	text = append(text, digits(d)...)
	text = append(text, " <- \"a\"\n"...)
	symNote("chain")
	c13Check(text, symFlags{leftRec: symBool("leftRec")})
}

// Harness_C13code: the body of a code block is symbolic (characters that mean
// something to the front end, to the builder's trimming of the block or to Go's
// lexical structure). arg = 4*form + number of symbolic bytes; forms: state
// block, action, code predicate, action behind CRLF line ends.
const c13CodeAlphabet = "\n\r \ta{}\"'`/*\\;"

func Harness_C13code(arg int) {
	symSkipStatic = true
	form, n := arg/4, arg%4
	body := symBytes("k", n)
	for _, b := range body {
		symAssume(symInSet(b, c13CodeAlphabet))
	}
	var text []byte
	switch form {
	case 0:
		text = append(append([]byte("A<-#{"), body...), "}'a'\n"...)
	case 1:
		text = append(append([]byte("A<-'a'{"), body...), "}\n"...)
	case 2:
		text = append(append([]byte("A<-&{"), body...), "}'a'\n"...)
	default:
		text = append(append([]byte("A<-'a'\r\n/'b'{"), body...), "}\r\n"...)
	}
	c13Check(text, c13Flags())
}

package main

// C13: the tool is total. (i) the whole grammar text is symbolic; (ii) one or
// two symbolic bytes replace the bytes at a position of a catalogue grammar.

const c13Buckets = 16

func c13Outcome(res symGen) string {
	switch {
	case res.panicked:
		return "panic"
	case res.perr != nil:
		return "parse error"
	case res.berr != nil:
		return "build error"
	}
	return "accepted"
}

func c13Flags() symFlags {
	return symFlags{optGrammar: symBool("optGrammar"), leftRec: symBool("leftRec"), optParser: symBool("optParser")}
}

func c13Check(text []byte, f symFlags) {
	res := symGenerate(text, f)
	symNote(c13Outcome(res))
	symAssert(!res.panicked, "C13: a Go panic leaves the pipeline (the tool prints a panic trace instead of a diagnostic)")
	if res.perr != nil {
		// a rejected grammar never reaches the builder; the error carries a position or cause
		symAssert(len(res.perr.Error()) > 0, "C13: empty diagnostic")
	}
	symReach("end")
}

// Harness_C13text: arg = length*c13Buckets + bucket of the first byte.
func Harness_C13text(arg int) {
	n, b := arg/c13Buckets, arg%c13Buckets
	text := symBytes("g", n)
	if n == 0 {
		symAssume(b == 0)
	} else {
		symAssume(text[0] >= byte(b*16))
		symAssume(text[0] <= byte(b*16+15))
	}
	c13Check(text, c13Flags())
}

// Harness_C13mut: arg = grammar*c13MaxLen + position; c13Width symbolic bytes
// replace the bytes at that position.
func Harness_C13mut(arg int) {
	gi, pos := arg/c13MaxLen, arg%c13MaxLen
	src := c13Grammars[gi]
	symAssume(pos+c13Width <= len(src))
	text := []byte(src)
	sub := symBytes("m", c13Width)
	for i := 0; i < c13Width; i++ {
		text[pos+i] = sub[i]
	}
	c13Check(text, c13Flags())
}

"""Per-property checks."""
import hashlib, json, os, random, re, shutil, time
from driver import *
import catcheck, refharness, gspec, cores

FLAGSETS = {
    "std": [],
    "opt": ["-optimize-parser"],
    "bl": ["-optimize-basic-latin"],
    "lr": ["-support-left-recursion"],
    "all": ["-optimize-parser", "-optimize-basic-latin", "-support-left-recursion"],
    "lropt": ["-support-left-recursion", "-optimize-parser"],
}


def ref_case(g, props, flagset="std", unconstrained=False, entry="", file_name="", suffix=""):
    """One parser + reference harness in package <id>_<flagset>/p."""
    cid = "%s_%s%s" % (g["name"], flagset, suffix)
    rel = cid + "/p"
    g = json.loads(json.dumps(g))  # deep copy: assign_args mutates
    g["_optimized"] = "-optimize-parser" in FLAGSETS[flagset]
    peg = gspec.print_peg(g, "p")
    files = {
        "h.go": refharness.harness_src(g, "p", props, unconstrained=unconstrained, entry=entry, file_name=file_name),
        "refg.go": "package p\n\nimport \"vh/ref\"\n\n" + gspec.go_ref(g),
    }
    names = ["Harness_" + p for p in props] + (["Harness_C16reuse"] if "C16" in props else [])
    return catcheck.Case(cid, [(rel, peg, FLAGSETS[flagset])], rel, files, names, tags=g.get("tags", []), peg=peg,
                         meta={"flagset": flagset})


def rnd_cat(tier, seed, nq, nt, features=(), depth=3):
    """Seeded random well-formed grammars (catalog/cores.py random_grammars): the program dimension
    beyond the hand-written catalogue; a different VERIF_SEED explores a different sample."""
    n = nq if tier == "quick" else nt
    base = ("pred", "label", "act") + tuple(features)
    # half of the sample with the plain generator, half with recursion behind a consuming prefix, label names
    # drawn from a small pool (the same name in nested scopes) and arbitrary recovery expressions
    ext = base + ("rec", "lblpool") + (("rcvgen",) if "throw" in features else ())
    return cores.random_grammars(seed, n - n // 2, features=base, depth=depth) + cores.random_grammars(seed, n // 2, features=ext, depth=depth)


def std_cov(report, agg, cases, bounds, rule, functions):
    report.cov.update({
        "states": agg["paths"], "transitions": agg["decisions"],
        "traces_validated_against_impl": agg["validated_ok"],
        "evaluations": agg["paths"], "distinct_nontrivial": agg["completed"],
        "rule": rule,
        "programs": len(cases),
        "jobs": agg["jobs"], "paths_completed": agg["completed"], "dropped_by_assumption": agg["dropped"],
        "queries": agg["queries"], "solver_s": round(agg["solver_s"], 2), "engine_wall_s": round(agg["engine_wall_s"], 2),
        "assertions_checked": agg["asserts"], "assertions_discharged": agg["discharged"],
        "counterexamples_from_solver": agg["cex"], "ssa_steps": agg["steps"],
        "bounds": bounds, "functions_encoded": functions, "stubs_and_intrinsics": agg.get("externals", []),
        "cross_validated_paths": agg["validated"],
    })


RUNTIME_FUNCS = ["Parse", "newParser", "(*parser).parse", "read", "restore", "parseRule*", "parseExprWrap", "parseExpr",
                 "parse<Kind>Expr (all 18)", "failAt", "sliceFrom", "pushV/popV", "cloneState/restoreState",
                 "addErr/addErrAt", "errList.*", "unicode/utf8.DecodeRune (std, from SSA)", "unicode.ToLower/Is (std, from SSA; ASCII case summary)",
                 "ref.Run (reference interpreter, same path condition)"]


def check_C01(tier, seed):
    rep = Report("C01", tier, seed, "model_checking")
    w = Work()
    w.build_pigeon()
    cat = cores.all_c01()
    rnd = random.Random(seed)
    cases = []
    if tier == "quick":
        N, tmo = 4, 120
        pick = cat[::3] + cores.composites()
        seen = set()
        for g in pick:
            if g["name"] in seen:
                continue
            seen.add(g["name"])
            cases.append(ref_case(g, ["C01"]))
        for g in cores.composites()[:4] + cat[1:40:8]:
            for fs in ("opt", "bl", "all"):
                cases.append(ref_case(g, ["C01"], flagset=fs))
    else:
        N, tmo = 5, 1800
        for g in cat:
            cases.append(ref_case(g, ["C01"]))
        for g in cat[::2]:
            for fs in ("opt", "bl", "lr", "all"):
                cases.append(ref_case(g, ["C01"], flagset=fs))
    rg = rnd_cat(tier, seed, 24, 300, ("state", "throw"))
    for g in rg:
        for fs in ("std", "opt"):
            cases.append(ref_case(g, ["C01"], flagset=fs))
    # classes against the reference's membership: random merges over a-h (nested, overlapping, adjacent ranges) and
    # random classes over boundary runes
    ccases = []
    for g in (cores.random_class_merges(seed, 12 if tier == "quick" else 150) + cores.random_classes(seed, 12 if tier == "quick" else 150) +
              cores.random_class_groups(seed, 8 if tier == "quick" else 100)):
        ccases.append(ref_case(g, ["C01"], flagset="std"))
        ccases.append(ref_case(g, ["C01"], flagset="bl"))
    lcases = [ref_case(g, ["C01"], flagset=fs) for g in cores.random_iliterals(seed, 24 if tier == "quick" else 120) for fs in ("std", "opt")]
    cases.append(ref_case(cat[0], ["TWIN"], suffix="_twin"))
    catcheck.prepare(w, cases + ccases + lcases)
    agg = catcheck.explore(w, rep, [c for c in cases if not c.id.endswith("_twin")], "C01", r"Harness_C01$", N, tmo, "ref", seed=seed,
                           validate_pkgs=6 if tier == "quick" else 24)
    # one class decides one rune: two (three) bytes are enough for the class cases
    agg = merge_agg(agg, catcheck.explore(w, rep, ccases, "C01", r"Harness_C01$", 2 if tier == "quick" else 3, tmo, "ref", seed=seed, validate_pkgs=3 if tier == "quick" else 10))
    # case-insensitive literals over letters with unusual case folding (a literal is matched rune by rune: one path per prefix)
    agg = merge_agg(agg, catcheck.explore(w, rep, lcases, "C01", r"Harness_C01$", 5 if tier == "quick" else 6, tmo, "ref", seed=seed, validate_pkgs=3 if tier == "quick" else 10))
    run_lemmas(w, rep, "C01", ["Seq", "Choice", "And", "Not", "Star", "Plus", "Opt", "Label"], 1 if tier == "quick" else 2)
    # terminals have no children to choose: a longer input is cheap (the literal of the lemma is 3 bytes long)
    run_lemmas(w, rep, "C01", ["Any", "Class"], 2 if tier == "quick" else 4, tmo=300 if tier == "quick" else 1800, key="lemma_obligations_terminals")
    # (the literals of the lemma are 3 and 4 bytes long)
    run_lemmas(w, rep, "C01", ["Lit"], 3 if tier == "quick" else 4, tmo=300 if tier == "quick" else 1800, key="lemma_obligations_literal")
    twin = run_engine(w, pkgs="./" + cases[-1].harness_rel, harness="Harness_TWIN$", nmin=1, nmax=1, timeout_s=60)
    tw = sum(len(j.get("counterexamples") or []) for j in twin.get("jobs") or [])
    if tw == 0:
        rep.inconclusive.append("vacuity twin was not violated: the harness does not reach its assertions")
    std_cov(rep, agg, cases, {"input_bytes_max": N, "alphabet": "terminal bytes of the grammar (both cases) + \\n z 0xC3 0xA9",
                              "grammars": len(cases), "random_grammars": "%d (seed %d; 1-3 rules, expression depth <= 3, all operators incl. state blocks and throw/recover)" % (len(rg), seed),
                              "ssa_step_limit_per_path": 2000000},
            "one state = one explored path (an equivalence class of inputs driving the generated parser and the reference the same way); distinct_nontrivial = paths completed with all assertions decided",
            RUNTIME_FUNCS)
    rep.cov["vacuity_twin_violated"] = tw > 0
    rep.assumptions += ["inputs longer than the bound and grammars outside the catalogue are outside the claim",
                        "refpeg (ref/refpeg.go) is the meaning of 'PEG semantics and documented value shapes'",
                        "library boundary: see coverage.stubs_and_intrinsics"]
    return rep.finish()


import relharness


def replay(path):
    """Re-run a saved counterexample against parsers regenerated from the current tree."""
    with open(path) as f:
        doc = json.load(f)
    os.environ["VERIF_REPLAY_DOC"] = os.path.abspath(path)
    fn = globals().get("check_" + doc["property"])
    try:
        fn("thorough", 0)
    except catcheck.ReplayDone as r:
        print("replay: assertion %s on the current tree" % ("FAILS" if r.failed else "holds"))
        return 1 if r.failed else 0
    return 2


def count_exprs(g):
    n = [0]
    def f(e):
        n[0] += 1
    for r in g["rules"]:
        gspec.walk(r["expr"], f)
    return n[0]


def rel_case(g, props, a_flags, b_flags, suffix="", entries=("",), alphabet=None):
    cid = g["name"] + suffix
    g = json.loads(json.dumps(g))
    peg_a = gspec.print_peg(g, "a")
    peg_b = gspec.print_peg(g, "b")
    a_rel, b_rel, h_rel = cid + "/a", cid + "/b", cid + "/hx"
    src = relharness.rel_src(cid, a_rel, b_rel, alphabet or refharness.alphabet_for(g), props,
                             state_keys={k: v for k, v in gspec.state_keys(g).items() if k not in (g.get("noinit_keys") or [])},
                             uses_fault=gspec.uses_fault(g), entries=entries,
                             budget_exprs=count_exprs(g), left_rec="-support-left-recursion" in a_flags)
    names = ["Harness_" + p for p in props]
    return catcheck.Case(cid, [(a_rel, peg_a, a_flags), (b_rel, peg_b, b_flags)], h_rel, {"h.go": src}, names,
                         tags=g.get("tags", []), peg=peg_a, meta={"a": a_flags, "b": b_flags})


REL_FUNCS = ["two generated parsers (real tool output for both flag sets): Parse and everything below it",
             "builder.BasicLatinLookup / writeCharClassMatcher / ast.Optimize (through the generated grammar literal)"]


def twin_check(w, rep, case, hre="Harness_TWIN$"):
    twin = run_engine(w, pkgs="./" + case.harness_rel, harness=hre, nmin=1, nmax=1, timeout_s=60)
    tw = sum(len(j.get("counterexamples") or []) for j in twin.get("jobs") or [])
    if tw == 0:
        rep.inconclusive.append("vacuity twin was not violated: the harness does not reach its assertions")
    rep.cov["vacuity_twin_violated"] = tw > 0


def check_C15(tier, seed):
    rep = Report("C15", tier, seed, "model_checking")
    w = Work()
    w.build_pigeon()
    cat = cores.class_catalogue()
    if tier == "quick":
        N, tmo = 2, 180
    else:
        N, tmo = 3, 900
    cat = cat + cores.random_classes(seed, 40 if tier == "quick" else 150)
    # several classes in one grammar (shared Unicode class names, characters and ranges, different ^ and i)
    cat = cat + cores.random_class_groups(seed, 24 if tier == "quick" else 100)
    cases = [rel_case(g, ["C15"], [], ["-optimize-basic-latin"]) for g in cat]
    # the table of a class that -optimize-grammar has cloned and merged: (X, X + -optimize-basic-latin) with X = -optimize-grammar
    og = ["-optimize-grammar"]
    for g in cores.random_class_merges(seed, 16 if tier == "quick" else 80) + [x for x in cores.opt_catalogue() if x["name"].startswith(("og_sharedcls", "og_merge0", "og_merge1"))]:
        cases.append(rel_case(g, ["C15"], og, og + ["-optimize-basic-latin"], suffix="_g"))
    # the same pair under -optimize-parser (the property holds for every other flag set): what the builder emits for a
    # class may depend on both flags together; case-insensitive classes (the input rune is folded before the lists
    # and the table are consulted), every second one in the quick tier
    op = ["-optimize-parser"]
    icls = [g for g in cores.class_catalogue() if '"i": true' in json.dumps(g)]
    for g in (icls[::2] if tier == "quick" else icls):
        cases.append(rel_case(g, ["C15"], op, op + ["-optimize-basic-latin"], suffix="_p"))
    # every other subset X of the remaining generation flags, rotating over the classes (seeded start): (X, X + flag)
    others = [["-optimize-grammar", "-optimize-parser"], ["-support-left-recursion"], ["-support-left-recursion", "-optimize-parser"],
              ["-optimize-grammar", "-support-left-recursion"], ["-optimize-grammar", "-optimize-parser", "-support-left-recursion"]]
    allc = cores.class_catalogue()
    for k, g in enumerate(allc[(seed % 5)::(5 if tier == "quick" else 2)]):
        x = others[(k + seed) % len(others)]
        cases.append(rel_case(g, ["C15"], x, x + ["-optimize-basic-latin"], suffix="_x%d" % ((k + seed) % len(others))))
    cases.append(rel_case(cat[0], ["TWIN"], [], ["-optimize-basic-latin"], suffix="_twin"))
    catcheck.prepare(w, cases)
    agg = catcheck.explore(w, rep, cases[:-1], "C15", r"Harness_C15$", N, tmo, "rel", seed=seed,
                           validate_pkgs=6 if tier == "quick" else 20)
    twin_check(w, rep, cases[-1])
    # kernel: every Unicode class name the front end accepts, with and without i, against package unicode on a symbolic rune
    names = unicode_class_names() + list("LMNCPZS")
    ksrc = "package builder\n\nvar c15Classes = []string{%s}\n" % ", ".join(go_str_lit(x) for x in names)
    ovk = RepoOverlay(w, "builder", "builder", {"zz_verif_c15.go": open(os.path.join(VERIF, "harness", "c15_builder.go")).read(), "zz_verif_c15data.go": ksrc}, ["Harness_C15kernel"])
    aggk = overlay_explore(rep, "C15", ovk, "Harness_C15kernel$", 0, 2 * len(names) - 1, 120, "c15_kernel", sample_every=37, max_triage=4)
    aggk.pop("_samples", None)
    rep.cov["kernel"] = {"unicode_classes": len(names), "jobs": aggk["jobs"], "paths": aggk["paths"], "queries": aggk["queries"], "assertions_checked": aggk["asserts"],
                         "assertions_discharged": aggk["discharged"], "counterexamples": aggk["cex"],
                         "note": "BasicLatinLookup(nil, nil, [class], i)[cur] == unicode.Is(table of package unicode, lower(cur) under i) for a symbolic cur in [0,128)"}
    std_cov(rep, agg, cases, {"input_bytes_max": N, "alphabet": "all 256 byte values (all runes, surrogates, overlongs, stray continuation bytes)",
                              "classes": len(cat), "random_classes": "seeded sample (seed %d) over boundary runes, ranges and Unicode classes" % seed},
            "one state = one explored path (class of inputs on which both real parsers take the same decisions)",
            REL_FUNCS)
    rep.assumptions += ["classes outside the catalogue and inputs longer than the bound are outside the claim"]
    return rep.finish()


def run_ref_property(prop, tier, seed, cat, hprops, Nq, Nt, tq=60, tt=900, flagsets_q=("std",), flagsets_t=("std", "opt"),
                     unconstrained=False, bounds_extra=None, assumptions=(), file_name="", level="model_checking", quick_stride=1,
                     post=None, max_steps=2_000_000, lemmas=None, rnd=None, lemma_n=(1, 2), extra=(), hre=None):
    rep = Report(prop, tier, seed, level)
    w = Work()
    w.build_pigeon()
    quick = tier == "quick"
    N, tmo = (Nq, 2 * tq + 60) if quick else (Nt, tt)  # generous wall budget per job (loaded hosts)
    fss = flagsets_q if quick else flagsets_t
    cases = []
    use = cat[::quick_stride] if quick else cat
    for g in use:
        for fs in fss:
            cases.append(ref_case(g, hprops, flagset=fs, unconstrained=unconstrained, file_name=file_name))
    nrnd = 0
    if rnd:
        rg = rnd_cat(tier, seed, rnd[0], rnd[1], rnd[2])
        nrnd = len(rg)
        for g in rg:
            for fs in fss:
                cases.append(ref_case(g, hprops, flagset=fs, unconstrained=unconstrained, file_name=file_name))
    for g, fs in extra:
        cases.append(ref_case(g, hprops, flagset=fs, unconstrained=unconstrained, file_name=file_name))
    twin = ref_case(cat[0], ["TWIN"], flagset=fss[0], suffix="_twin")
    catcheck.prepare(w, cases + [twin])
    agg = catcheck.explore(w, rep, cases, prop, hre or (r"Harness_%s$" % hprops[0]), N, tmo, "ref", seed=seed,
                           validate_pkgs=6 if quick else 24, max_steps=max_steps)
    twin_check(w, rep, twin)
    if lemmas:
        run_lemmas(w, rep, prop, lemmas, lemma_n[0] if quick else lemma_n[1], tmo=300 if quick else 1500)
    b = {"input_bytes_max": N, "grammars": len(cases), "flag_sets": list(fss), "ssa_step_limit_per_path": max_steps,
         "alphabet": "all 256 byte values" if unconstrained else "terminal bytes of the grammar (both cases) + \\n z 0xC3 0xA9"}
    if rnd:
        b["random_grammars"] = "%d (seed %d; 1-3 rules, expression depth <= 3, features %s)" % (nrnd, seed, "+".join(("pred", "label", "act") + tuple(rnd[2])))
    b.update(bounds_extra or {})
    std_cov(rep, agg, cases, b,
            "one state = one explored path (class of inputs driving the generated parser and the reference the same way); distinct_nontrivial = paths completed with all assertions decided",
            RUNTIME_FUNCS)
    rep.assumptions += ["inputs longer than the bound and grammars outside the catalogue are outside the claim",
                        "refpeg (ref/refpeg.go, DESIGN.md Appendix B) is the meaning of the documented semantics"] + list(assumptions)
    if post:
        post(rep, w, agg)
    return rep.finish()


def check_C12(tier, seed):
    lrs = [g for g in cores.lr_catalogue() if not gspec.uses_state(g)] + cores.random_lr(seed, 6 if tier == "quick" else 60)
    return run_ref_property("C12", tier, seed, cores.fail_catalogue() + cores.pair_core()[::4], ["C12"], 4, 6, tq=120, tt=1800, rnd=(24, 200, ("throw",)),
                            extra=[(g, "lr") for g in lrs] + ([(g, "opt") for g in cores.fail_catalogue()] if tier == "quick" else []),
                            lemmas=["FailLit", "FailClass", "FailAny", "FailNot", "FailAnd"], lemma_n=(2, 3))


def check_C17(tier, seed):
    # the other generation flag sets, rotating over the catalogue (seeded start)
    fsr = ["opt", "bl", "all", "lr"]
    rot = [(g, fsr[(k + seed) % len(fsr)]) for k, g in enumerate(cores.utf8_catalogue())]
    return run_ref_property("C17", tier, seed, cores.utf8_catalogue(), ["C17"], 3, 4, unconstrained=True, tq=120, tt=1800,
                            bounds_extra={"AllowInvalidUTF8": "symbolic", "rotating_flag_sets": "one of opt, bl, all, lr per catalogue grammar in addition to std"}, rnd=(8, 80, ()),
                            extra=rot if tier == "quick" else [(g, fs) for g in cores.utf8_catalogue() for fs in ("bl", "all", "lr")])


def check_C02(tier, seed):
    def positions(rep, w, agg):
        # line, col and offset after a matched terminal are what read() reaches from the start of the input
        # (literals with the two-byte rune last, first and in both places; any matcher; class)
        run_lemmas(w, rep, "C02", ["Lit"], 3 if tier == "quick" else 4, tmo=300 if tier == "quick" else 1800, key="lemma_obligations_positions")
    return run_ref_property("C02", tier, seed, cores.context_catalogue() + cores.composites(), ["C02"], 4, 5, tq=120, lemmas=["Action", "Label", "And", "Not", "Star", "Plus", "Opt", "Choice", "Seq", "AndCode", "NotCode", "StateCode"], rnd=(16, 150, ("state",)),
                            post=positions)


def check_C05(tier, seed):
    return run_ref_property("C05", tier, seed, cores.state_catalogue(), ["C05"], 4, 5, flagsets_q=("std", "opt"), quick_stride=1, tq=120, tt=1800, lemmas=["Seq", "Choice", "And", "Not", "Action", "Star", "Opt", "AndCode", "NotCode", "StateCode"], rnd=(16, 200, ("state",)),
                            extra=[(g, fs) for g in cores.state_lr_catalogue() for fs in ("lr", "lropt")])


def check_C14(tier, seed):
    return run_ref_property("C14", tier, seed, cores.throw_catalogue(), ["C14"], 4, 6, flagsets_q=("std", "opt"), tq=120, tt=1800, lemmas=["Recovery", "RecoveryTwice", "RecoveryNested", "Throw"], rnd=(16, 200, ("throw",)))


def check_C11(tier, seed):
    fsr = ["opt", "bl", "all"] if tier == "quick" else ["bl", "all"]  # (the thorough tier runs every grammar under opt anyway)
    rot11 = [(g, fsr[(k + seed) % len(fsr)]) for k, g in enumerate(cores.fault_catalogue())]
    return run_ref_property("C11", tier, seed, cores.fault_catalogue(), ["C11"], 3, 4, file_name="f%20x.txt", flagsets_q=("std",), tq=120, tt=1800,
                            bounds_extra={"fault_plan": "symbolic: per block slot, first two invocations in {none, errA, errB, panic}", "Recover": "symbolic"},
                            rnd=(8, 80, ("fault",)), lemmas=["AddErr"], lemma_n=(2, 3), extra=[(g, "lr") for g in cores.fault_lr_catalogue()] + rot11)


def check_C10(tier, seed):
    rep = Report("C10", tier, seed, "translation_validation")
    w = Work()
    w.build_pigeon()
    quick = tier == "quick"
    N, tmo = (3, 180) if quick else (4, 900)
    pc = cores.pair_core()
    groups = [
        (pc[::4] if quick else pc, [[], ["-optimize-basic-latin"]]),
        (cores.composites(), [[], ["-optimize-basic-latin"], ["-optimize-grammar"]]),
        (cores.state_catalogue()[::2 if quick else 1], [[]]),
        (cores.throw_catalogue(), [[]]),
        (cores.fail_catalogue(), [[]]),
        (cores.context_catalogue(), [[]]),
        (cores.lr_catalogue() + cores.random_lr(seed, 6 if quick else 60), [["-support-left-recursion"]]),
    ]
    cases = []
    for cat, xs in groups:
        for g in cat:
            for k, x in enumerate(xs if not quick else xs[:2]):
                cases.append(rel_case(g, ["C10"], x, x + ["-optimize-parser"], suffix="_x%d" % k))
    for g in rnd_cat(tier, seed, 24, 250, ("state", "throw")):
        cases.append(rel_case(g, ["C10"], [], ["-optimize-parser"]))
    # every subset X of the other generation flags, rotating over classes, composites and throw grammars: (X, X + flag)
    bl, og, lrf = "-optimize-basic-latin", "-optimize-grammar", "-support-left-recursion"
    others = [[bl, og], [lrf], [bl, lrf], [og, lrf], [bl, og, lrf], [bl]]
    rot = cores.class_catalogue()[(seed % 4)::(8 if quick else 2)] + cores.composites() + cores.throw_catalogue()[::(3 if quick else 1)]
    for k, g in enumerate(rot):
        x = others[(k + seed) % len(others)]
        cases.append(rel_case(g, ["C10"], x, x + ["-optimize-parser"], suffix="_r%d" % ((k + seed) % len(others))))
    twin = rel_case(pc[0], ["TWIN"], [], ["-optimize-parser"], suffix="_twin")
    catcheck.prepare(w, cases + [twin])
    agg = catcheck.explore(w, rep, cases, "C10", r"Harness_C10$", N, tmo, "rel", seed=seed, validate_pkgs=6 if quick else 20)
    twin_check(w, rep, twin)
    std_cov(rep, agg, cases, {"input_bytes_max": N, "random_grammars": "seeded sample (seed %d), see catalog/cores.py random_grammars" % seed, "flag_pairs": "(X, X + -optimize-parser), X in {none, -optimize-basic-latin, -optimize-grammar, -support-left-recursion}"},
            "one state = one explored path (class of inputs on which both real parsers take the same decisions)", REL_FUNCS)
    rep.cov["disagreements_checked"] = agg["cex"]
    rep.assumptions += ["grammars outside the catalogue and inputs longer than the bound are outside the claim", "default runtime options"]
    return rep.finish()


def check_C09(tier, seed):
    rep = Report("C09", tier, seed, "translation_validation")
    w = Work()
    w.build_pigeon()
    quick = tier == "quick"
    N, tmo = (4, 300) if quick else (5, 1800)
    cat = cores.opt_catalogue() + cores.composites() + cores.context_catalogue() + cores.throw_catalogue() + (cores.pair_core()[::5] if quick else cores.pair_core())
    cases = []
    for g in cat:
        ents = g.get("entries") or [""]
        alt = [e for e in ents if e]
        bflags = ["-optimize-grammar"]
        if alt:
            bflags += ["-alternate-entrypoints", ",".join(alt)]
        cases.append(rel_case(g, ["C09"], [], bflags, entries=ents))
    for g in cores.random_class_merges(seed, 24 if quick else 250):
        cases.append(rel_case(g, ["C09"], [], ["-optimize-grammar"]))
    for g in rnd_cat(tier, seed, 24, 250, ("throw",)):
        ents = g.get("entries") or [""]
        alt = [e for e in ents if e]
        cases.append(rel_case(g, ["C09"], [], ["-optimize-grammar"] + (["-alternate-entrypoints", ",".join(alt)] if alt else []), entries=ents))
    # every subset X of the other generation flags, rotating over the optimizer catalogue and the composites: (X, X + flag)
    opf, bl, lrf = "-optimize-parser", "-optimize-basic-latin", "-support-left-recursion"
    others = [[opf], [bl], [opf, bl], [lrf], [opf, lrf], [bl, lrf], [opf, bl, lrf]]
    rot = (cores.opt_catalogue() + cores.composites())[(seed % 3)::(3 if quick else 1)]
    for k, g in enumerate(rot):
        if any("known-if-not-type-checking" in t for t in g.get("tags", [])):
            continue
        x = others[(k + seed) % len(others)]
        ents = g.get("entries") or [""]
        alt = [e for e in ents if e]
        cases.append(rel_case(g, ["C09"], x, x + ["-optimize-grammar"] + (["-alternate-entrypoints", ",".join(alt)] if alt else []), entries=ents, suffix="_r%d" % ((k + seed) % len(others))))
    twin = rel_case(cat[0], ["TWIN"], [], ["-optimize-grammar"], suffix="_twin")
    catcheck.prepare(w, cases + [twin])
    agg = catcheck.explore(w, rep, cases, "C09", r"Harness_C09$", N, tmo, "rel", seed=seed, validate_pkgs=6 if quick else 20)
    twin_check(w, rep, twin)
    std_cov(rep, agg, cases, {"input_bytes_max": N, "random_grammars": "seeded sample (seed %d), see catalog/cores.py random_grammars" % seed, "entrypoints": "first rule and every rule in -alternate-entrypoints"},
            "one state = one explored path (class of inputs on which the optimized and the unoptimized real parser take the same decisions)", REL_FUNCS)
    rep.cov["disagreements_checked"] = agg["cex"]
    rep.assumptions += ["grammars outside the catalogue and inputs longer than the bound are outside the claim"]
    return rep.finish()


def check_C08(tier, seed):
    st_lr = [g for g in cores.state_lr_catalogue() if g["name"] != "stlr_twice"]  # (the witness of finding F21 belongs to C05)
    return run_ref_property("C08", tier, seed, cores.lr_catalogue() + st_lr + cores.random_lr(seed, 10 if tier == "quick" else 80), ["C08"], 5, 7, tq=120, tt=1800,
                            flagsets_q=("lr", "lropt"), flagsets_t=("lr", "lropt"),
                            bounds_extra={"Memoize": "symbolic (non-optimized parsers)"},
                            assumptions=["left-recursive rules of the form A <- A a1/.../A an/b1/.../bm, entered through the leader"])


def check_C16(tier, seed):
    lrs = [g for g in cores.lr_catalogue() if g["name"] in (("lr_direct", "lr_indirect") if tier == "quick" else ("lr_direct", "lr_two", "lr_nest", "lr_indirect", "lr_indirect2", "lr_postfix"))]
    bc = cores.budget_catalogue()
    opt_extra = [(g, "opt") for g in (bc[::2] if tier == "quick" else bc)] + [(g, "lropt") for g in lrs[:1]]
    return run_ref_property("C16", tier, seed, bc, ["C16"], 2, 3, tq=120, tt=1800, extra=[(g, "lr") for g in lrs] + opt_extra,
                            flagsets_q=("std",), flagsets_t=("std", "lr"), max_steps=300_000, rnd=(8, 80, ("throw", "state")),
                            hre=r"Harness_C16(reuse)?$",
                            bounds_extra={"budget": "symbolic, 1..24 (1..12 for the non-terminating grammars)", "Memoize": "symbolic",
                                          "statistics_collector": "second harness: the Stats struct handed to Statistics already counts 0..40 expressions (symbolic), budget 1..16, option order symbolic"})


def check_C06(tier, seed):
    rep = Report("C06", tier, seed, "translation_validation")
    w = Work()
    w.build_pigeon()
    quick = tier == "quick"
    N, tmo = (3, 240) if quick else (4, 900)  # (wall budgets per job are generous: a loaded host must not turn a pass into INCONCLUSIVE)
    pc = cores.pair_core()
    cat = cores.memo_catalogue() + (pc[::4] if quick else pc) + cores.composites() + cores.fail_catalogue() + [g for g in cores.context_catalogue() if not gspec.uses_state(g)]
    cat = cat + rnd_cat(tier, seed, 12, 150)
    cases = [rel_case(g, ["C06"], [], []) for g in cat]
    # left-recursive parsers: same results under the three options (no evaluation bound is claimed for them)
    lrf = ["-support-left-recursion"]
    cases += [rel_case(g, ["C06"], lrf, lrf, suffix="_lr") for g in cores.lr_catalogue() + cores.random_lr(seed, 6 if quick else 60) if not gspec.uses_state(g)]
    twin = rel_case(pc[0], ["TWIN"], [], [], suffix="_twin")
    catcheck.prepare(w, cases + [twin])
    def confirm(w_, rel, hname, arg, model, msg):
        """A double evaluation seen by the engine monitor changes no result, so the plain native replay cannot fail on
        it. Confirm it on an instrumented scratch copy of the generated parser (never of /repo): parseExpr of the
        memoizing variant records (expression node, offset) per parser object and reports a pair it sees twice."""
        if "evaluated a second time" not in msg:
            return None
        case_dir = os.path.dirname(rel)           # h/<case>
        src = os.path.join(w_.mod, case_dir)
        dst = src + "_once"
        if not os.path.isdir(dst):
            shutil.copytree(src, dst)
            old_imp, new_imp = "/" + os.path.basename(src) + "/", "/" + os.path.basename(dst) + "/"
            for root, _, files in os.walk(dst):
                for fn in files:
                    if fn.endswith(".go"):
                        fp = os.path.join(root, fn)
                        with open(fp) as f:
                            t = f.read()
                        t = t.replace(old_imp, new_imp)
                        if os.path.basename(root) == "b" and "func (p *parser) parseExpr(expr any) (any, bool) {" in t:
                            t = t.replace("func (p *parser) parseExpr(expr any) (any, bool) {", "func (p *parser) parseExpr(expr any) (any, bool) {\n\tsymOnceHook(p, expr)", 1)
                        with open(fp, "w") as f:
                            f.write(t)
            with open(os.path.join(dst, "b", "zz_once.go"), "w") as f:
                f.write("package b\n\nimport (\n\t\"fmt\"\n\t\"os\"\n)\n\nvar symOnceParser *parser\nvar symOnceSeen map[string]bool\n\n"
                        "func symOnceHook(p *parser, expr any) {\n\tif !p.memoize {\n\t\treturn\n\t}\n\tif p != symOnceParser {\n\t\tsymOnceParser, symOnceSeen = p, map[string]bool{}\n\t}\n"
                        "\tk := fmt.Sprintf(\"%T %p @%d\", expr, expr, p.pt.offset)\n\tif symOnceSeen[k] {\n\t\tfmt.Fprintln(os.Stderr, \"SYMONCE: evaluated twice under Memoize(true):\", k)\n\t}\n\tsymOnceSeen[k] = true\n}\n")
        rel2 = os.path.join(os.path.dirname(case_dir), os.path.basename(dst), os.path.basename(rel))
        nat = native_run(w_, rel2, hname, arg, model)
        twice = nat.get("marks") or []
        if twice:
            nat["fails"] = list(nat.get("fails") or []) + ["instrumented copy of the generated parser: " + twice[0][9:]]
        return nat
    agg = catcheck.explore(w, rep, cases, "C06", r"Harness_C06$", N, tmo, "rel", seed=seed, validate_pkgs=6 if quick else 20, confirm=confirm)
    twin_check(w, rep, twin)
    run_lemmas(w, rep, "C06", ["InOut", "Memo"], 1, only_std=True)
    std_cov(rep, agg, cases, {"input_bytes_max": N, "random_grammars": "seeded sample (seed %d), see catalog/cores.py random_grammars" % seed, "options": "Memoize, Debug, Statistics symbolic booleans (8 combinations)"},
            "one state = one explored path (input class x option combination)", REL_FUNCS + ["getMemoized/setMemoized", "parseRuleMemoize", "incChoiceAltCnt"])
    rep.cov["disagreements_checked"] = agg["cex"]
    rep.assumptions += ["fmt.Printf (Debug output) is an empty stub: formatting is not the subject", "pure code blocks only (no state blocks, no throw/recover)"]
    return rep.finish()


def triage_overlay(rep, prop, ov, hname, arg, cx, case_id, extra=None, timeout=120):
    """Native confirmation of a counterexample of an overlay harness."""
    model = cx.get("model") or {}
    msg = cx.get("msg", "")
    hang = msg.startswith("step limit")
    if hname.endswith("seq") and "built before in the same process" in msg:
        # two processes: X after Y, and X alone; the digests of the generated text must agree
        dig = {}
        for mode in ("after", "alone"):
            n1 = ov.native(hname, arg, model, timeout=timeout, env_extra={"VERIF_MODE": mode})
            dig[mode] = [x for x in n1["notes"] if x.startswith("digest:")]
        nat = n1
        nat["notes"] = []
        nat["fails"] = [msg + " [two processes: after=%s alone=%s]" % (dig["after"], dig["alone"])] if dig["after"] and dig["alone"] and dig["after"] != dig["alone"] else []
    else:
        nat = ov.native(hname, arg, model, timeout=10 if hang else timeout)
    doc = {"property": prop, "family": "overlay", "case": case_id, "harness": hname, "arg": arg, "model": model, "msg": msg,
           "input": catcheck.model_bytes(model), "tags": [], "native": {k: nat[k] for k in ("fails", "panic", "timeout", "notes")}}
    doc.update(extra or {})
    reproduced = bool(nat["fails"]) or (nat["panic"] is not None and msg.startswith("uncaught")) or nat["timeout"]
    if not reproduced:
        if hang:
            rep.inconclusive.append("%s n=%d: engine step limit hit but the native run terminates" % (hname, arg))
        else:
            rep.unconfirmed.append("%s n=%d: '%s' model=%s did not reproduce natively (%s)" % (hname, arg, msg, model, nat["raw"][-300:].replace("\n", " | ")))
        return None
    k = match_known(prop, doc)
    if k is not None:
        short = "%s %s" % (k["id"], k["what"])
        if short not in rep.known:
            rep.known.append(short)
        return doc
    path = save_replay(prop, doc)
    rep.violation(path, "%s n=%d: %s; model=%s native=%s notes=%s" % (hname, arg, msg, model, nat["fails"] or nat["panic"] or "timeout", nat["notes"]))
    return doc


def overlay_explore(rep, prop, ov, hre, nmin, nmax, tmo, case_id, sample_every=50, max_triage=6, args=None, native_fail_is_violation=False, **kw):
    """Run an overlay harness; triage; cross-validate samples. Returns agg."""
    try:
        return _overlay_explore(rep, prop, ov, hre, nmin, nmax, tmo, case_id, sample_every, max_triage, args, native_fail_is_violation, **kw)
    finally:
        tick("overlay %s" % case_id)


def _overlay_explore(rep, prop, ov, hre, nmin, nmax, tmo, case_id, sample_every=50, max_triage=6, args=None, native_fail_is_violation=False, **kw):
    agg = {"jobs": 0, "paths": 0, "completed": 0, "decisions": 0, "queries": 0, "solver_s": 0.0, "asserts": 0, "discharged": 0,
           "dropped": 0, "steps": 0, "cex": 0, "validated": 0, "validated_ok": 0, "engine_wall_s": 0.0, "externals": []}
    only = os.environ.get("VERIF_ONLY")  # development aid (the evidence of such a run is not written to /verif/evidence)
    if only and not re.search(only, case_id):
        return agg
    res = ov.engine(harness=hre, nmin=nmin, nmax=nmax, timeout_s=tmo, sample_every=sample_every, args=sorted(args) if args is not None else None, **kw)
    if res.get("errors"):
        rep.inconclusive.append("engine: " + "; ".join(res["errors"])[:800])
    agg["engine_wall_s"] = res.get("wall_s", 0)
    agg["externals"] = res.get("externals") or []
    samples = []
    triaged = 0
    known_done, new_done = {}, {}
    for j in res.get("jobs") or []:
        if args is not None and j["arg"] not in args:
            continue
        hname = j["harness"].rsplit(".", 1)[1]
        agg["jobs"] += 1
        for a, b in (("paths", "paths"), ("completed", "completed"), ("decisions", "decisions"), ("queries", "queries"),
                     ("assertions_checked", "asserts"), ("assertions_discharged", "discharged"), ("dropped_by_assumption", "dropped"), ("ssa_steps", "steps")):
            agg[b] += j.get(a, 0)
        agg["solver_s"] += j.get("solver_s", 0)
        hang_cex = any((cx.get("msg") or "").startswith("step limit") for cx in j.get("counterexamples") or [])
        for m in j.get("inconclusive") or []:
            if hang_cex and m.startswith("step limit"):
                continue
            rep.inconclusive.append("%s n=%d: %s" % (hname, j["arg"], m))
        if (j.get("reached") or {}).get("end", 0) == 0 and j.get("completed", 0) > 0 and not j.get("counterexamples"):
            rep.inconclusive.append("%s n=%d: vacuous (no path reached the end marker)" % (hname, j["arg"]))
        for s in (j.get("samples") or [])[:6]:
            samples.append({"harness": hname, "arg": j["arg"], "model": s["model"], "notes": s.get("notes") or []})
        for cx in j.get("counterexamples") or []:
            agg["cex"] += 1
            # counterexamples fitting a listed known finding have their own small budget, so that
            # they cannot use up the replay slots of a violation that is not listed
            model = cx.get("model") or {}
            pre = match_known(prop, {"case": case_id, "tags": [], "msg": cx.get("msg", ""), "model": model, "input": catcheck.model_bytes(model),
                                     "native": {"notes": cx.get("notes") or []}})
            if pre is not None:
                if known_done.get(pre["id"], 0) >= 1:
                    continue
                known_done[pre["id"]] = 1
            else:
                mkey = (cx.get("msg", "")[:60])
                if triaged >= max_triage or new_done.get(mkey, 0) >= 2:
                    agg["cex_not_triaged"] = agg.get("cex_not_triaged", 0) + 1
                    continue
                new_done[mkey] = new_done.get(mkey, 0) + 1
                triaged += 1
            triage_overlay(rep, prop, ov, hname, j["arg"], cx, case_id)
    if samples:
        got = ov.native_batch([{"harness": s["harness"], "arg": s["arg"], "model": s["model"]} for s in samples[:60]])
        if got is None:
            rep.inconclusive.append("%s: native cross-validation run failed" % case_id)
        else:
            for s, nat in zip(samples[:60], got):
                agg["validated"] += 1
                if native_fail_is_violation and nat["fails"] and not nat["panic"]:
                    # the engine skips a part of the pipeline that the native run of the same harness includes
                    # (declared stub): an assertion failing natively is a violation reproduced on the real code
                    doc = {"property": prop, "family": "overlay", "case": case_id, "harness": s["harness"], "arg": s["arg"], "model": s["model"], "msg": nat["fails"][0],
                           "input": catcheck.model_bytes(s["model"]), "tags": ["found-by-native-run"], "native": {k: nat[k] for k in ("fails", "panic", "timeout", "notes")}}
                    if match_known(prop, doc) is None:
                        rep.violation(save_replay(prop, doc), "%s n=%d: %s (native run of the harness; the engine run skips the static-code template expansion)" % (s["harness"], s["arg"], nat["fails"][0]))
                    continue
                if nat["fails"] or nat["panic"] or sorted(nat["notes"]) != sorted(s["notes"]):
                    rep.unconfirmed.append("%s n=%d model=%s: engine notes %s vs native fails=%s panic=%s notes=%s" % (
                        s["harness"], s["arg"], s["model"], s["notes"], nat["fails"], nat["panic"], nat["notes"]))
                else:
                    agg["validated_ok"] += 1
        for s in samples[:4]:
            rep.samples.append({"case": case_id, "harness": s["harness"], "n": s["arg"], "model": s["model"], "path_notes": s["notes"]})
    agg["_samples"] = samples
    return agg


def merge_agg(a, b):
    out = dict(a)
    for k, v in b.items():
        if k == "_samples":
            out[k] = out.get(k, []) + v
        elif isinstance(v, (int, float)):
            out[k] = out.get(k, 0) + v
        elif isinstance(v, list):
            out[k] = sorted(set(out.get(k, []) + v))
    return out


def check_C07(tier, seed):
    rep = Report("C07", tier, seed, "model_checking")
    w = Work()
    w.build_pigeon()
    quick = tier == "quick"
    # (a) analysis vs. reflr over the lazily chosen family (harness inside package builder)
    ov = RepoOverlay(w, "builder", "builder", {"zz_verif_c07.go": open(os.path.join(VERIF, "harness", "c07a_builder.go")).read()}, ["Harness_C07a"])
    menu = 47
    if quick:
        rnd = random.Random(seed)
        pick = sorted(set([0, 1, 4, 6, 8, 33, 35, 37, 43, 45, 46] + rnd.sample(range(menu), 1)))
    else:
        pick = list(range(menu))
    agg_a = overlay_explore(rep, "C07", ov, "Harness_C07a$", min(pick), max(pick), 300 if quick else 1200, "c07a_family",
                            sample_every=997, args=set(pick) if quick else None, max_steps=2_000_000)
    # (b) consequence at run time: accepted grammars never re-enter a rule at the same offset
    cyc = cores.cyclic_catalogue()
    cases_b = [ref_case(g, ["C07b"]) for g in cyc]
    acyclic = (cores.pair_core()[::6] if quick else cores.pair_core()[::2]) + cores.composites() + cores.throw_catalogue()
    cases_ok = [ref_case(g, ["C07b"]) for g in acyclic]
    catcheck.prepare(w, cases_b + cases_ok)
    accepted_cyclic = [c for c in cases_b if not c.gen_errors]
    rejected_cyclic = [c for c in cases_b if c.gen_errors]
    for c in rejected_cyclic:
        for rel, flags, code, err in c.gen_errors:
            if "left recursion" not in err:
                rep.inconclusive.append("%s: rejected for another reason: %s" % (c.id, err))
        c.gen_errors = []  # expected outcome, not an inconclusive result
    run_b = accepted_cyclic + [c for c in cases_ok if not c.gen_errors]
    agg_b = catcheck.explore(w, rep, run_b, "C07", r"Harness_C07b$", 2 if quick else 3, 120, "ref", seed=seed, validate_pkgs=4,
                             max_steps=400_000)
    # with the flag every cyclic grammar must be accepted or rejected with the leader error, never crash
    agg = merge_agg(agg_a, agg_b)
    std_cov(rep, agg, cases_b + cases_ok,
            {"family": "2 rules x 2 lazily chosen slots from a menu of 47 (4 terminals + 21 operator shapes x 2 referenced rules + a reference to the fixed throwing rule) + a fixed nullable rule and a fixed throwing rule; first slot of rule A = job argument (%d of 47 in this tier)" % len(pick),
             "runtime_monitor": "input <= %d bytes on %d accepted grammars" % (2 if quick else 3, len(run_b)),
             "cyclic_catalogue": "%d grammars with a first-call cycle: %d rejected without the flag, %d accepted" % (len(cyc), len(rejected_cyclic), len(accepted_cyclic))},
            "(a) one state = one lazily completed grammar prefix (all completions of untouched slots at once), compared with the syntactic reference reflr; (b) one state = one input class of a generated parser under the re-entry monitor",
            ["builder.PrepareGrammar", "ComputeNullables", "ComputeLeftRecursives", "MakeFirstGraph", "StronglyConnectedComponents", "findLeader", "FindCyclesInSCC",
             "ast.*.NullableVisit / IsNullable / InitialNames", "generated parseRule* under the engine's re-entry monitor"])
    rep.cov["solver_role"] = "(a): slot choices are engine nondeterminism (symChoose), the solver is not needed - lazy case enumeration, stated as such; (b): input bytes symbolic, solver-decided"
    rep.cov["cyclic_grammars_accepted_without_flag"] = [c.id for c in accepted_cyclic]
    rep.assumptions += ["(a) grammars with more than 2 symbolic rules / 2 slots per rule / operator nesting deeper than the menu are outside the claim",
                        "repetitions whose body can match without consuming are excluded (assumed away, counted as dropped)",
                        "reflr: syntactic nullable/first-call analysis (least fixpoint); predicates, repetition, label, action and recovery operands count as called at the current position"]
    return rep.finish()


def go_str_lit(s):
    return json.dumps(s, ensure_ascii=True)


def c19_grammars(quick, seed=0):
    """(name, peg text, flags dict)"""
    out = []
    for k, g in enumerate(rnd_cat("quick" if quick else "thorough", seed, 3, 16, ("throw",))):
        g = json.loads(json.dumps(g))
        alt = [e for e in (g.get("entries") or []) if e]
        out.append((g["name"], gspec.print_peg(g, "p"), dict(optGrammar=True, optParser=k % 2 == 1, altEntry=alt)))
    for k, g in enumerate(cores.random_lr(seed, 2 if quick else 10)):
        g = json.loads(json.dumps(g))
        out.append((g["name"], gspec.print_peg(g, "p"), dict(leftRec=True, optGrammar=k % 2 == 1)))
    hdr = "{\npackage p\n}\n"
    lr = dict(leftRec=True)
    out.append(("f1_nullable_cycle", hdr + "T <- Z / \"\"\nZ <- R2 Z / 'q'\nR2 <- T / 'a'\n", lr))
    out.append(("two_cycles", hdr + "S <- A 'x' / B 'y'\nA <- B 'a' / 'a'\nB <- A 'b' / S 'c' / 'b'\n", lr))
    out.append(("three_scc", hdr + "E <- E '+' T / T\nT <- T '*' F / F\nF <- '(' E ')' / G\nG <- G 'g' / 'n'\n", lr))
    out.append(("two_sccs", hdr + "S <- Sum / Path\nSum <- Prod '+' N / N\nProd <- Sum '*' N / N\nPath <- Step '/' I / I\nStep <- Path '.' I / I\nN <- [0-9]\nI <- [a-z]\n", lr))
    out.append(("mutual_nullable", hdr + "A <- B? A 'x' / C\nB <- C? 'b'\nC <- A? 'c' / \"\"\n", lr))
    out.append(("opt_shared_leaf", hdr + "S <- A B A / B\nA <- 'a' / 'b'\nB <- 'c' A / [d-e]\nU <- 'u'\n", dict(optGrammar=True)))
    out.append(("opt_chain", hdr + "S <- A 'd'\nA <- B 'c'?\nB <- 'a' / 'b'\nC <- 'x' B\nD <- C C\n", dict(optGrammar=True)))
    out.append(("opt_entry", hdr + "S <- A B\nA <- ('a' / 'b') { return 1, nil }\nB <- 'c' A?\nX <- 'x' A\nY <- X B\n", dict(optGrammar=True, altEntry=["A", "X"])))
    # merged classes with duplicated members of every kind (characters, ranges, Unicode classes)
    out.append(("opt_class_dups", hdr + "S <- (I / [\\p{Nd}\\p{Ll}\\p{Mn}0-9a])+ J\nI <- [\\p{Lu}\\p{Ll}a-fxy] / [_\\p{Lt}\\p{Lu}a-fyz]\nJ <- [a-c]i / [b-d]i / 'q'i / [\\p{Lu}q]i\n", dict(optGrammar=True)))
    # a diamond of rule references: B becomes inlinable only after its users were visited, A1 uses A2 and B with a
    # literal in between (the order in which the users are revisited decides the order of the merged class)
    out.append(("opt_diamond", hdr + "S <- A1+ Hex? Oct? Dec?\nA1 <- A2 / \"x\" / B\nA2 <- \"-\" B / \"y\"\nB <- \"1\" / C\nC <- \"0\"\nHex <- [0-9a-f] C\nOct <- [0-7] C\nDec <- [0-9] B\n", dict(optGrammar=True)))
    # a label bound twice in one scope next to other labels (no flag needed): the parameter list of the code blocks
    out.append(("dup_labels", hdr + "S <- a:'x' b:'y' ('z' a:'w' c:'v') { return a, nil }\nT <- v:'1' w:'2' v:'3' u:'4' &{ return true, nil } #{ return nil }\n", dict()))
    # a failure label listed twice in one recovery operator, rules in a non-alphabetical order
    out.append(("dup_faillabels", hdr + "S <- Z //{e1, e2, e1} Y //{e3, e3} 'q'\nZ <- 'a' / %{e1} / %{e3}\nY <- 'b' / %{e2}\nA <- Y Z\n", dict()))
    # the same left-recursive grammars with every rule on one source line (rules separated by ';')
    for name, text, fl in list(out):
        if fl.get("leftRec") and not name.startswith("lrrnd") and text.startswith(hdr):
            out.append((name + "_oneline", hdr + ";".join(l for l in text[len(hdr):].split("\n") if l) + "\n", fl))
    if not quick:
        out.append(("opt_lr", hdr + "E <- E '+' T / T\nT <- N / '(' E ')'\nN <- D D?\nD <- [0-9]\n", dict(optGrammar=True, leftRec=True)))
        out.append(("plain_many", hdr + "S <- A B C D\nA <- 'a' B?\nB <- 'b' C?\nC <- 'c' D?\nD <- 'd' / &{ return true, nil } 'e'\n", dict()))
        out.append(("opt_all", hdr + "S <- (A / B / C)+\nA <- 'a' 'b'\nB <- 'a' / 'c'\nC <- [x-z] / 'w'\n", dict(optGrammar=True, optParser=True, basicLatin=True)))
    return out


def check_C19(tier, seed):
    rep = Report("C19", tier, seed, "model_checking")
    w = Work()
    w.build_pigeon()
    quick = tier == "quick"
    D = 1 if quick else 2
    gs = c19_grammars(quick, seed)
    src = ["package main\n\nimport \"fmt\"\n\n", "type c19Case struct {\n\tname, text string\n\tf symFlags\n}\n\nvar c19Cases = []c19Case{\n"]
    for name, text, fl in gs:
        fields = []
        for k in ("optGrammar", "optParser", "basicLatin", "leftRec"):
            if fl.get(k):
                fields.append("%s: true" % k)
        if fl.get("altEntry"):
            fields.append("altEntry: []string{%s}" % ", ".join(go_str_lit(x) for x in fl["altEntry"]))
        src.append("\t{%s, %s, symFlags{%s}},\n" % (go_str_lit(name), go_str_lit(text), ", ".join(fields)))
    src.append("}\n")
    src.append('''
// C19: the generated output is a function of grammar text and flags only.
// The first generation runs with every map ranged in insertion order; the
// second one lets at most symOrderBound range instances iterate in another
// order (engine nondeterminism, delay-bounded).
func Harness_C19(n int) {
	cs := c19Cases[n]
	canon := symGenerate([]byte(cs.text), cs.f)
	symOrderMode(symOrderBound)
	got := symGenerate([]byte(cs.text), cs.f)
	symOrderMode(0)
	symNote(cs.name)
	symAssert(canon.perr == nil && got.perr == nil, "C19: catalogue grammar rejected by the front end")
	symAssert(!canon.panicked, "C19: the pipeline panicked on a catalogue grammar: "+canon.pmsg)
	symAssert(canon.panicked == got.panicked, "C19: a panic depends on map iteration order")
	symAssert((canon.berr == nil) == (got.berr == nil), "C19: acceptance depends on map iteration order")
	symAssert(canon.out == got.out, "C19: generated output depends on map iteration order")
	symReach("end")
}
''')
    src.append('''
// C19 (repeated builds inside one process): what is generated for grammar X
// after another grammar Y has been built in the same process equals what a
// process of its own generates for X (whatever a build leaves behind in
// package-level state - caches keyed too coarsely, counters - must not reach
// the next build). symFreshProcess puts the package-level variables back to
// their initial values; the native confirmation runs the two halves in two
// processes (symMode) and compares the digests.
func c19Hash(s string) string {
	h := uint32(2166136261)
	for i := 0; i < len(s); i++ {
		h = (h ^ uint32(s[i])) * 16777619
	}
	return fmt.Sprintf("%d:%x", len(s), h)
}

func Harness_C19seq(n int) {
	x := c19Cases[n]
	y := c19Cases[(n+1)%len(c19Cases)]
	fy := x.f
	fy.altEntry = y.f.altEntry
	if y.f.leftRec {
		fy.leftRec = true
	}
	mode := symMode()
	var after, alone symGen
	if mode != "alone" {
		symGenerate([]byte(y.text), fy)
		after = symGenerate([]byte(x.text), x.f)
	}
	symFreshProcess()
	if mode != "after" {
		alone = symGenerate([]byte(x.text), x.f)
	}
	if mode != "both" {
		if mode == "after" {
			symNote("digest:" + c19Hash(after.out))
		} else {
			symNote("digest:" + c19Hash(alone.out))
		}
		symReach("end")
		return
	}
	symNote(x.name + " after " + y.name + " " + c19Hash(alone.out))
	symAssert(alone.perr == nil && !alone.panicked && alone.berr == nil, "C19: catalogue grammar not generated")
	symAssert(!after.panicked && after.berr == nil, "C19: a build fails after another build in the same process")
	symAssert(alone.out == after.out, "C19: the output for a grammar depends on what was built before in the same process")
	symReach("end")
}
''')
    src.append("const symOrderBound = %d\n" % D)
    ov = RepoOverlay(w, ".", "main", {"zz_verif_main.go": open(os.path.join(VERIF, "harness", "main_common.go")).read(),
                                      "zz_verif_c19.go": "".join(src)}, ["Harness_C19", "Harness_C19seq"])
    agg = {"jobs": 0, "paths": 0, "completed": 0, "decisions": 0, "queries": 0, "solver_s": 0.0, "asserts": 0, "discharged": 0,
           "dropped": 0, "steps": 0, "cex": 0, "validated": 0, "validated_ok": 0, "engine_wall_s": 0.0, "externals": []}
    res = ov.engine(harness="Harness_C19$", nmin=0, nmax=len(gs) - 1, timeout_s=240 if quick else 3000, sample_every=40, max_steps=20_000_000)
    if res.get("errors"):
        rep.inconclusive.append("engine: " + "; ".join(res["errors"])[:800])
    agg["engine_wall_s"] = res.get("wall_s", 0)
    agg["externals"] = res.get("externals") or []
    for j in res.get("jobs") or []:
        name, text, fl = gs[j["arg"]]
        agg["jobs"] += 1
        for a, b in (("paths", "paths"), ("completed", "completed"), ("decisions", "decisions"), ("queries", "queries"),
                     ("assertions_checked", "asserts"), ("assertions_discharged", "discharged"), ("ssa_steps", "steps")):
            agg[b] += j.get(a, 0)
        for m in j.get("inconclusive") or []:
            rep.inconclusive.append("%s: %s" % (name, m))
        if (j.get("reached") or {}).get("end", 0) == 0:
            rep.inconclusive.append("%s: vacuous (no path reached the end marker)" % name)
        for s in (j.get("samples") or [])[:2]:
            rep.samples.append({"grammar": name, "flags": fl, "range_order_choices": s["model"], "path_notes": s.get("notes")})
        cexs = j.get("counterexamples") or []
        agg["cex"] += len(cexs)
        if cexs:
            # native confirmation: run the real tool repeatedly and look for two different outputs
            flags = []
            if fl.get("optGrammar"): flags.append("-optimize-grammar")
            if fl.get("optParser"): flags.append("-optimize-parser")
            if fl.get("basicLatin"): flags.append("-optimize-basic-latin")
            if fl.get("leftRec"): flags.append("-support-left-recursion")
            if fl.get("altEntry"): flags += ["-alternate-entrypoints", ",".join(fl["altEntry"])]
            d = os.path.join(w.dir, "c19_" + name)
            os.makedirs(d, exist_ok=True)
            with open(os.path.join(d, "g.peg"), "w") as f:
                f.write(text)
            outs = {}
            runs = 300
            for k in range(runs):
                r = subprocess.run([w.pigeon] + flags + ["g.peg"], cwd=d, env=base_env(), capture_output=True)
                key = (r.returncode, r.stdout)
                outs[key] = outs.get(key, 0) + 1
                if len(outs) > 1 and k > 20:
                    break
            doc = {"property": "C19", "case": name, "peg": text, "flags": flags, "msg": cexs[0]["msg"], "model": cexs[0]["model"],
                   "native_distinct_outputs": len(outs), "native_runs": sum(outs.values()), "tags": [], "input": []}
            if len(outs) > 1:
                k = match_known("C19", doc)
                if k is not None:
                    short = "%s %s" % (k["id"], k["what"])
                    if short not in rep.known:
                        rep.known.append(short)
                else:
                    path = save_replay("C19", doc)
                    rep.violation(path, "%s %s: %d distinct outputs in %d runs of the real tool; engine: %s with range orders %s" % (
                        name, " ".join(flags), len(outs), sum(outs.values()), cexs[0]["msg"], cexs[0]["model"]))
            else:
                rep.unconfirmed.append("%s: engine found an order-dependent output (%s, orders %s) but %d native runs of the tool gave one output" % (
                    name, cexs[0]["msg"], cexs[0]["model"], runs))
    # repeated builds in one process: X, Y, X (one concrete path per pair in the engine, where the template expansion of the
    # static code is skipped; the native run of the same harness includes it, and a native assertion failure is a
    # reproduced violation of the property on the real code)
    agg_s = overlay_explore(rep, "C19", ov, "Harness_C19seq$", 0, len(gs) - 1, 240 if quick else 900, "c19_seq", sample_every=1, max_triage=4, max_steps=60_000_000,
                            native_fail_is_violation=True)
    for k in ("jobs", "paths", "completed", "asserts", "discharged", "steps", "validated", "validated_ok"):
        agg[k] += agg_s.get(k, 0)
    # cross-validation: the engine's canonical output must be what the native pipeline produces (checked through C20/selftest)
    std_cov(rep, agg, gs, {"range_instances_deviating_per_path": D, "grammars": len(gs),
                           "permutations": "all orders for maps with <= 3 keys; reversal, rotation and adjacent transpositions above"},
            "one state = one assignment of iteration orders to the dynamic map-range instances of one generation run (at most D deviate from insertion order)",
            ["main: Parse (generated front end) on the concrete grammar text", "ast.Optimize", "builder.BuildParser: PrepareGrammar, ComputeNullables, ComputeLeftRecursives, MakeFirstGraph, StronglyConnectedComponents, findLeader, FindCyclesInSCC, writeGrammar, writeRuleCode"])
    rep.cov["solver_role"] = "none for the deciding step: map orders are engine nondeterminism under a delay bound (the thinnest use of the technique in the set, labelled as a reduced claim)"
    rep.cov["traces_validated_against_impl"] = 0
    rep.assumptions += ["text/template expansion of the static code and goimports are not interpreted: assumed independent of map order",
                        "at most D range instances per run deviate from insertion order; the product of all orders is not explored",
                        "confirmation of a counterexample = two different outputs among up to 300 native runs of the real tool"]
    return rep.finish()


def c13_grammars(quick):
    hdr = "{\npackage p\n}\n"
    short = [
        "A<-(B/C)*;B<-'b';C<-`c`\n",
        "{package p}\nA<-'a'%{l}//{l}'b'\n",
        "{package p}\nE<-E '+' T/T;T<-[0-9]+\n",
        "{package p}\nA<-B 'a'\nB<-x:\"b\"i{return x,nil}\n",
        "A<-[\\p{Nd}\\pLa-c]i [^\\]\\n]\n",
        "A<-[a_-\\pL] [+-\\p{Nd}]i\n",
        "S<-K V;K<-W K?;V<-W V?\nW<-&{return true,nil}'a'\n",
        "A<-A 'x'/B 'y'/'a';B<-B 'p'/A 'q'/'b'\n",
        # two left-recursive groups, the indirect one reaching the direct one at its first position; the direct rule
        # sorts before (first text) or after (second text) the rules of the indirect group
        "Stmt<-Tail ';'/'s';Tail<-Expr ','/Stmt 't';Expr<-Expr '+' 'n'/'n'\n",
        "B<-C ';'/'s';C<-Z ','/B 't';Z<-Z '+' 'n'/'n';Y<-B\n",
    ]
    if quick:
        return short
    return short + [
        hdr + "A <- 'a' B? / [b-c]+ !.\nB \"bee\" <- x:\"b\"i { return x, nil }\n",
        hdr + "S = a:A &{ return true, nil } #{ return nil } .*\nA ← !'x' . / %{l}\n",
        hdr + "A <- B 'a'\nB <- \"\\u00e9\\n\" [\\pL\\p{Nd}_^-]i // c\n",
        hdr + "A <- &B !C D\nB <- 'b'\nC <- 'c'\nD <- [^a-z]i .\n",
    ]


def check_C13(tier, seed):
    rep = Report("C13", tier, seed, "model_checking")
    w = Work()
    w.build_pigeon()
    quick = tier == "quick"
    gs = c13_grammars(quick)
    maxlen = max(len(g.encode()) for g in gs)
    width = 1
    extra = "package main\n\nvar c13Grammars = []string{\n%s}\n\nconst c13MaxLen = %d\nconst c13Width = %d\nconst c13MainFull = %s\n" % (
        "".join("\t%s,\n" % go_str_lit(g) for g in gs), maxlen, width, "false" if quick else "true")
    ov = RepoOverlay(w, ".", "main", {"zz_verif_main.go": open(os.path.join(VERIF, "harness", "main_common.go")).read(),
                                      "zz_verif_c13.go": open(os.path.join(VERIF, "harness", "c13_main.go")).read(),
                                      "zz_verif_c13m.go": open(os.path.join(VERIF, "harness", "c13main_main.go")).read(),
                                      "zz_verif_c13data.go": extra}, ["Harness_C13text", "Harness_C13mut", "Harness_C13chain", "Harness_C13code", "Harness_C13main", "Harness_C13maintext"])
    N = 3 if quick else 4
    B = 16
    agg1 = overlay_explore(rep, "C13", ov, "Harness_C13text$", 0, (N + 1) * B - 1, 400 if quick else 3000, "c13_text", sample_every=97, max_triage=4)
    # mutations: every position in thorough, a seeded stride in quick
    rnd = random.Random(seed)
    if quick:
        stride, off = 6, rnd.randrange(6)
        def positions(g):
            n = len(g.encode())
            if "&{return true,nil}'a'" in g:
                # shape grammar (code in a leaf rule inlined into two surviving rules): the unmutated shape matters,
                # two positions whose mutation mostly keeps the text valid are enough in the quick tier
                return [g.index("'a'") + 1, g.index("K?") + 1]
            if "'+' 'n'/'n'" in g:
                # shape grammars (two left-recursive groups, one reachable from the other at the first position)
                return [g.index("'s'") + 1, g.index("'t'") + 1]
            if g.startswith("A<-A 'x'/B"):
                # shape grammar (two rules, each directly and both mutually left-recursive: no leader candidate)
                return [g.index("'x'") + 1, g.index("'q'") + 1]
            return range(off % 3, n, 3) if n <= 30 else range(off, n, stride)
        args = [gi * maxlen + p for gi, g in enumerate(gs) for p in positions(g)]
    else:
        args = [gi * maxlen + p for gi, g in enumerate(gs) for p in range(0, len(g.encode()) - width + 1, 1 if gi < 4 else 3)]
    agg2 = overlay_explore(rep, "C13", ov, "Harness_C13mut$", 0, 0, 300 if quick else 900, "c13_mut", sample_every=197, max_triage=4, args=set(args))
    # reference chains of depth 3, 8 and 34 (the last one exhibits finding F18: 2^d visits in the nullable analysis)
    agg3 = overlay_explore(rep, "C13", ov, "Harness_C13chain$", 0, 0, 120, "c13_chain", sample_every=1, max_triage=2, args={3, 8, 34}, max_steps=30_000_000)
    # code-block bodies of <= 2 (3) symbolic bytes in four places
    code_args = [4 * f + k for f in range(4) for k in range(0, (2 if quick else 3) + 1)]
    agg4 = overlay_explore(rep, "C13", ov, "Harness_C13code$", 0, 0, 120 if quick else 900, "c13_code", sample_every=97, max_triage=4, args=set(code_args))
    # the real main(): flags, order of the stages, exit status per failing stage, what is written (6 grammars x 8 concrete flag triples,
    # the other flags, the entry point list and one appended byte symbolic)
    agg5 = overlay_explore(rep, "C13", ov, "Harness_C13main$", 0, 0, 240 if quick else 900, "c13_main", sample_every=29 if quick else 199, max_triage=4,
                           args=set(c * 8 + b for c in range(6) for b in ((0, 3, 5, 6) if quick else range(8))), max_steps=20_000_000)
    # the whole text symbolic on the standard input of the real main(): <= 2 (3) bytes
    NM = 2 if quick else 3
    agg6 = overlay_explore(rep, "C13", ov, "Harness_C13maintext$", 0, (NM + 1) * 16 - 1, 240 if quick else 1800, "c13_maintext", sample_every=53, max_triage=4, max_steps=20_000_000)
    agg = merge_agg(merge_agg(merge_agg(merge_agg(merge_agg(agg1, agg2 or {}), agg3 or {}), agg4 or {}), agg5 or {}), agg6 or {})
    agg.pop("_samples", None) if False else None
    # cross-check of the harness staging against the real binary: exit status and no panic trace
    nat_ok = 0
    want = {"parse error": (3,), "build error": (5,), "accepted": (0, 6)}
    smp = [s for s in agg.get("_samples", []) if s["notes"] and s["harness"] in ("Harness_C13text", "Harness_C13mut")]
    rnd.shuffle(smp)
    for k, s in enumerate(smp[:60]):
        m = s["model"]
        if s["harness"] == "Harness_C13text":
            text = bytes(catcheck.model_bytes(m, "g"))
        else:
            gi, pos = s["arg"] // maxlen, s["arg"] % maxlen
            bs = bytearray(gs[gi].encode())
            for i, v in enumerate(catcheck.model_bytes(m, "m")):
                bs[pos + i] = v
            text = bytes(bs)
        d = os.path.join(w.dir, "c13_native")
        os.makedirs(d, exist_ok=True)
        with open(os.path.join(d, "g%d.peg" % k), "wb") as f:
            f.write(text)
        flags = [fl for key, fl in (("optGrammar", "-optimize-grammar"), ("leftRec", "-support-left-recursion"), ("optParser", "-optimize-parser")) if m.get(key)]
        try:
            r = subprocess.run([w.pigeon] + flags + ["-o", os.path.join(d, "out%d.go" % k), "g%d.peg" % k], cwd=d, env=base_env(), capture_output=True, timeout=30)
        except subprocess.TimeoutExpired:
            rep.unconfirmed.append("real tool did not terminate within 30 s on %r %s" % (text, flags))
            continue
        err = r.stderr.decode("utf-8", "replace")
        note = s["notes"][0]
        if "goroutine " in err or "panic:" in err or r.returncode not in want.get(note, ()):
            rep.unconfirmed.append("engine path '%s' for grammar %r flags %s, but the real tool exits %d: %s" % (note, text, flags, r.returncode, err[-200:]))
        else:
            nat_ok += 1
    rep.cov["real_binary_runs_agreeing_with_engine_outcome"] = nat_ok
    std_cov(rep, agg, gs, {"whole_text_bytes_max": N, "mutation_width": width, "mutated_positions": len(args), "flags": "optimize-grammar, support-left-recursion, optimize-parser symbolic"},
            "one state = one explored path (class of grammar texts x flag values driving front end, optimizer and builder the same way)",
            ["main.Parse (generated front end, pigeon.go) and all grammar actions", "ast.New*, (*CharClassMatcher).parse", "validateUnicodeEscape", "strconv.Unquote/UnquoteChar (std, SSA)",
             "ast.Optimize", "builder.BuildParser: PrepareGrammar, write* (writeStaticCode skipped: declared stub)"])
    rep.assumptions += ["flag parsing, file I/O, text/template expansion and goimports are outside (main() is entered below them)",
                        "texts longer than the bound are covered only through 1-2 byte mutations of the catalogue grammars"]
    return rep.finish()




def c03_roundtrip_cases(quick, seed=0):
    """(name, text, expected dump literal) for every catalogue grammar and a seeded random sample."""
    cats = (cores.all_c01() + cores.context_catalogue() + cores.state_catalogue() + cores.throw_catalogue() + cores.fault_catalogue() +
            cores.fail_catalogue() + cores.lr_catalogue() + cores.opt_catalogue() + cores.utf8_catalogue() + cores.budget_catalogue() +
            cores.class_catalogue() + cores.cyclic_catalogue())
    if quick:
        cats = cats[::3]
    cats = cats + rnd_cat("quick" if quick else "thorough", seed, 16, 150, ("state", "throw"))
    out = []
    styles = [dict(sep=" ", ruleop="<-", rule_end="\n\n"), dict(sep="\n\t", ruleop="=", rule_end=";\n"),
              dict(sep="  ", ruleop="←", rule_end=" // c\n"), dict(sep=" /* x */ ", ruleop="⟵", rule_end="\n")]
    for i, g in enumerate(cats):
        g = json.loads(json.dumps(g))
        st = styles[i % len(styles)]
        text, g2 = gspec.print_grammar_pos(g, "p", **st)
        exp = gspec.expected_dump(g2, text, with_pos=True)
        if quick and len(text) > 700:
            continue  # long code blocks in nested groups: minutes of interpretation, thorough only
        out.append((g["name"], text, gspec.go_any(exp)))
    return out


def check_C03(tier, seed):
    rep = Report("C03", tier, seed, "model_checking")
    w = Work()
    w.build_pigeon()
    quick = tier == "quick"
    rt = c03_roundtrip_cases(quick, seed)
    src = ["package main\n\nimport \"github.com/mna/pigeon/ast\"\n\ntype c03Case struct {\n\tname, text string\n\twant any\n}\n\nvar c03Cases = []c03Case{\n"]
    for name, text, want in rt:
        src.append("\t{%s, %s, %s},\n" % (go_str_lit(name), go_str_lit(text), want))
    src.append("}\n")
    src.append('''
// C03 round trip: the text printed from a catalogue AST is accepted and parses
// back to exactly that AST, every node positioned at its first token.
func Harness_C03rt(n int) {
	cs := c03Cases[n]
	g, err := Parse("", []byte(cs.text))
	symNote(cs.name)
	symAssert(err == nil, "C03: text in the documented syntax was rejected")
	if err == nil {
		got := symDumpGrammar(g.(*ast.Grammar), true)
		symDebug("got", got)
		symDebug("want", cs.want)
		symAssert(symEqual(got, cs.want), "C03: the AST differs from the one the text denotes (structure, values or positions)")
	}
	symReach("end")
}
''')
    # layout / comment holes on a few skeletons
    skel = [g for g in cores.composites() + cores.throw_catalogue()[:3] + cores.context_catalogue()[:3]][: (4 if quick else 12)]
    lay = []
    maxseps = 1
    for g in skel:
        g = json.loads(json.dumps(g))
        text, g2 = gspec.print_grammar_pos(g, "p")
        seps = g2["_sep_offs"]
        if quick:
            seps = seps[::max(1, len(seps) // 6)][:6]
        maxseps = max(maxseps, len(seps))
        lay.append((g["name"], text, seps, gspec.go_any(gspec.expected_dump(g2, text, with_pos=False))))
    hole_len = 2 if quick else 3
    src.append("\ntype c03Lay struct {\n\tname string\n\ttext []byte\n\tseps []int\n\twant any\n}\n\nvar c03Layout = []c03Lay{\n")
    for name, text, seps, want in lay:
        src.append("\t{%s, []byte(%s), []int{%s}, %s},\n" % (go_str_lit(name), go_str_lit(text), ", ".join(str(s) for s in seps), want))
    src.append("}\n\nconst c03MaxSeps = %d\nconst c03HoleLen = %d\n" % (maxseps, hole_len))
    # rule terminators: the two newlines behind the initializer and behind every rule of a multi-rule skeleton
    term = []
    maxterms = 1
    tskel = [g for g in cores.composites() if g["name"] in ("c_multirule", "c_display")] + [g for g in cores.throw_catalogue() if g["name"] in ("tr_called", "tr_resume")][: (1 if quick else 2)]
    for g in tskel:
        g = json.loads(json.dumps(g))
        text, g2 = gspec.print_grammar_pos(g, "p")
        tb = text.encode("utf-8")
        ends = [r["_off"] - 2 for r in g2["rules"]] + [len(tb) - 2]
        assert all(tb[o:o + 2] == b"\n\n" for o in ends), (g["name"], ends)
        if quick:
            ends = ends[:2] + ends[-1:]
        maxterms = max(maxterms, len(ends))
        term.append((g["name"], text, ends, gspec.go_any(gspec.expected_dump(g2, text, with_pos=False))))
    src.append("\nvar c03Term = []c03Lay{\n")
    for name, text, ends, want in term:
        src.append("\t{%s, []byte(%s), []int{%s}, %s},\n" % (go_str_lit(name), go_str_lit(text), ", ".join(str(s) for s in ends), want))
    src.append("}\n\nconst c03MaxTerms = %d\n" % maxterms)
    term_args = [ci * maxterms + si for ci, (_, _, ends, _) in enumerate(term) for si in range(len(ends))]
    files = {"zz_verif_main.go": open(os.path.join(VERIF, "harness", "main_common.go")).read(),
             "zz_verif_dump.go": open(os.path.join(VERIF, "harness", "astdump_main.go")).read(),
             "zz_verif_c03h.go": open(os.path.join(VERIF, "harness", "c03_holes_main.go")).read(),
             "zz_verif_c03.go": "".join(src)}
    names = ["Harness_C03rt", "Harness_C03layout", "Harness_C03comment", "Harness_C03escape", "Harness_C03class", "Harness_C03op", "Harness_C03ident", "Harness_C03code", "Harness_C03litbody", "Harness_C03term"]
    ov = RepoOverlay(w, ".", "main", files, names)
    agg = overlay_explore(rep, "C03", ov, "Harness_C03rt$", 0, len(rt) - 1, 120, "c03_roundtrip", sample_every=1, max_triage=5, max_steps=20_000_000 if quick else 400_000_000)
    lay_args = [ci * maxseps + si for ci, (_, _, seps, _) in enumerate(lay) for si in range(len(seps))]
    tmo = 120 if quick else 900
    big = {} if quick else {"max_steps": 40_000_000}
    agg = merge_agg(agg, overlay_explore(rep, "C03", ov, "Harness_C03layout$", 0, 0, tmo, "c03_layout", sample_every=23, max_triage=3, args=set(lay_args), **big))
    agg = merge_agg(agg, overlay_explore(rep, "C03", ov, "Harness_C03term$", 0, 0, tmo, "c03_term", sample_every=23, max_triage=3, args=set(term_args), **big))
    agg = merge_agg(agg, overlay_explore(rep, "C03", ov, "Harness_C03comment$", 0, 0, tmo, "c03_comment", sample_every=23, max_triage=3, args=set(lay_args[::2] if quick else lay_args), **big))
    # double, single, class, class range bound; the 9-byte form (\UXXXXXXXX) only in the two quotings
    esc_args = [q * 16 + n for q in (0, 1, 2, 3) for n in (1, 3, 5)] + ([] if quick else [q * 16 + 9 for q in (0, 1)])
    agg = merge_agg(agg, overlay_explore(rep, "C03", ov, "Harness_C03escape$", 0, 0, tmo if quick else 2400, "c03_escape", sample_every=23, max_triage=3, args=set(esc_args)))
    lit_args = [8 * q + k for q in (0, 2) for k in range(0, (2 if quick else 3) + 1)] + [8 * 1 + 1]
    agg = merge_agg(agg, overlay_explore(rep, "C03", ov, "Harness_C03litbody$", 0, 0, tmo, "c03_litbody", sample_every=23, max_triage=3, args=set(lit_args)))
    code_args = [8 * f + k for f in range(6) for k in range(0, (3 if quick else 4) + 1)]
    agg = merge_agg(agg, overlay_explore(rep, "C03", ov, "Harness_C03code$", 0, 0, tmo, "c03_code", sample_every=23, max_triage=3, args=set(code_args)))
    cls_args = list(range(0, (3 if quick else 4) + 1)) + [10 * sh + k for sh in range(1, 9) for k in range(1, (2 if quick else 3) + 1)]
    agg = merge_agg(agg, overlay_explore(rep, "C03", ov, "Harness_C03class$", 0, 0, tmo, "c03_class", sample_every=23, max_triage=3, args=cls_args))
    agg = merge_agg(agg, overlay_explore(rep, "C03", ov, "Harness_C03op$", 0, 0, tmo, "c03_op", sample_every=3, max_triage=3))
    agg = merge_agg(agg, overlay_explore(rep, "C03", ov, "Harness_C03ident$", 1, 2 if quick else 3, tmo, "c03_ident", sample_every=23, max_triage=3))
    agg.pop("_samples", None)
    std_cov(rep, agg, rt, {"roundtrip_grammars": len(rt), "layouts": "4 styles: spaces, newline+tab with = and ;, unicode arrows with // and /* */ comments",
                           "layout_holes": "%d symbolic layout bytes at %d token boundaries of %d skeletons; comments with 2 symbolic bytes" % (hole_len, len(lay_args), len(lay)),
                           "terminator_holes": "%d symbolic layout bytes in front of a semicolon (blanks, tabs, CR, LF) or of an end of line (blanks, tabs, CR), with and without a following newline, at %d rule / initializer ends of %d skeletons" % (hole_len, len(term_args), len(term)),
                           "escape_holes": "escape bodies of length %s in double and single quotes and inside classes (alone and as a range bound), all bytes symbolic, assumed valid by the reference decoder" % ("1,3,5" if quick else "1,3,5,9"),
                           "class_holes": "class bodies of <= %d symbolic printable ASCII bytes, and <= %d symbolic bytes between 8 concrete prefix/suffix shapes (pending character, complete range, two ranges, leading/trailing dash); ^ and i symbolic" % ((3, 2) if quick else (4, 3)),
                           "random_grammars": "seeded sample (seed %d) added to the round trips" % seed,
                           "code_block_holes": "<= %d symbolic bytes inside a string, raw string, rune literal, line comment, block comment or nested braces of a code block whose tail would unbalance the braces if the hole were delimited wrongly" % (3 if quick else 4),
                           "literal_bodies": "escape-free bodies of <= %d symbolic ASCII bytes in double quotes and back quotes (raw: carriage returns discarded), one byte in single quotes" % (2 if quick else 3),
                           "operator_holes": "prefix and suffix operator symbolic in a skeleton using all eight binding levels",
                           "identifier_holes": "identifiers of <= %d symbolic ASCII characters" % (2 if quick else 3)},
            "one state = one explored path of the real front end (class of hole contents); the round trip has one path per grammar",
            ["main.Parse (generated front end, pigeon.go) with all actions", "ast.New*", "(*CharClassMatcher).parse", "strconv.Unquote/UnquoteChar (std, SSA)", "validateUnicodeEscape"])
    rep.assumptions += ["expected ASTs and positions come from the catalogue printer (catalog/gspec.py), independent of pigeon"]
    return rep.finish()


def in_bootstrap_subset(g):
    ok = [True]
    def f(e):
        if e["k"] in ("andcode", "notcode", "state", "throw", "recover"):
            ok[0] = False
    for r in g["rules"]:
        gspec.walk(r["expr"], f)
    return ok[0]


def check_C20(tier, seed):
    rep = Report("C20", tier, seed, "translation_validation")
    w = Work()
    w.build_pigeon()
    quick = tier == "quick"
    # (b) regeneration of every checked-in artifact + fixpoint (concrete; also the precondition of all other checks)
    import regen
    res, err = regen.regen_all(w)
    if err:
        rep.inconclusive.append("regeneration: " + err)
    bad = [r for r in res if r["status"] != "identical"]
    for r in bad:
        doc = {"property": "C20", "case": "regen:" + r["target"], "msg": "regenerated artifact %s" % r["status"], "cmd": r["cmd"], "detail": r.get("detail", ""), "tags": [], "input": [], "model": {}}
        k = match_known("C20", doc)
        if k is not None:
            rep.known.append("%s %s" % (k["id"], k["what"]))
        else:
            rep.violation(save_replay("C20", doc), "regenerating %s with `%s`: %s %s" % (r["target"], r["cmd"], r["status"], r.get("detail", "")))
    # fixpoint: pigeon -nolint grammar/pigeon.peg == pigeon.go
    fp = subprocess.run([w.pigeon, "-nolint", "grammar/pigeon.peg"], cwd=REPO, env=base_env(), capture_output=True)
    same = fp.returncode == 0 and fp.stdout == open(os.path.join(REPO, "pigeon.go"), "rb").read()
    if not same:
        doc = {"property": "C20", "case": "fixpoint", "msg": "pigeon -nolint grammar/pigeon.peg differs from pigeon.go", "tags": [], "input": [], "model": {}}
        rep.violation(save_replay("C20", doc), "bootstrap chain is not a fixpoint: `pigeon -nolint grammar/pigeon.peg` (exit %d) differs from the checked-in pigeon.go" % fp.returncode)
    # (a) two front ends on symbolic text
    cats = [g for g in cores.all_c01() + cores.context_catalogue() + cores.fail_catalogue() + cores.lr_catalogue() + cores.opt_catalogue() + cores.class_catalogue()
            if in_bootstrap_subset(g)]
    if quick:
        must = [g for g in cats if g["name"] in ("og_nestseq", "og_mixnest", "og_nestcho", "c_deepchoice", "c_labels", "cx_nested")]
        cats = cats[::4] + [g for g in must if g not in cats[::4]]
    cats = cats + [g for g in rnd_cat(tier, seed, 24, 200) if in_bootstrap_subset(g)]
    rt = []
    for g in cats:
        g = json.loads(json.dumps(g))
        text, g2 = gspec.print_grammar_pos(g, "p")
        if quick and len(text) > 700:
            continue
        rt.append((g["name"], text))
    # the same texts with CRLF line ends (the initializer and every multi-line code block then contain carriage returns)
    rt += [(name + "_crlf", text.replace("\n", "\r\n")) for name, text in rt[: (4 if quick else 40)]]
    skel = [g for g in cores.composites() + cores.context_catalogue()[:4] if in_bootstrap_subset(g)][: (3 if quick else 8)]
    lay, maxseps = [], 1
    for g in skel:
        g = json.loads(json.dumps(g))
        text, g2 = gspec.print_grammar_pos(g, "p")
        seps = g2["_sep_offs"]
        if quick:
            seps = seps[::max(1, len(seps) // 5)][:5]
        maxseps = max(maxseps, len(seps))
        lay.append((g["name"], text, seps))
    # rule terminators (the two newlines behind the initializer and behind each rule) as holes
    term, maxterms = [], 1
    for g in [g for g in cores.composites() if g["name"] in ("c_multirule", "c_display") and in_bootstrap_subset(g)]:
        g = json.loads(json.dumps(g))
        text, g2 = gspec.print_grammar_pos(g, "p")
        tb = text.encode("utf-8")
        ends = [r["_off"] - 2 for r in g2["rules"]] + [len(tb) - 2]
        assert all(tb[o:o + 2] == b"\n\n" for o in ends)
        maxterms = max(maxterms, len(ends))
        term.append((g["name"], text, ends))
    hole_len = 2 if quick else 3
    src = ["package main\n\ntype c20Case struct {\n\tname, text string\n}\n\nvar c20Cases = []c20Case{\n"]
    for name, text in rt:
        src.append("\t{%s, %s},\n" % (go_str_lit(name), go_str_lit(text)))
    src.append("}\n\ntype c20Lay struct {\n\tname string\n\ttext []byte\n\tseps []int\n}\n\nvar c20Layout = []c20Lay{\n")
    for name, text, seps in lay:
        src.append("\t{%s, []byte(%s), []int{%s}},\n" % (go_str_lit(name), go_str_lit(text), ", ".join(str(s) for s in seps)))
    src.append("}\n\nconst c20MaxSeps = %d\nconst c20HoleLen = %d\n" % (maxseps, hole_len))
    src.append("\nvar c20Term = []c20Lay{\n")
    for name, text, ends in term:
        src.append("\t{%s, []byte(%s), []int{%s}},\n" % (go_str_lit(name), go_str_lit(text), ", ".join(str(s) for s in ends)))
    src.append("}\n\nconst c20MaxTerms = %d\n" % maxterms)
    term_args = [ci * maxterms + si for ci, (_, _, ends) in enumerate(term) for si in range(len(ends))]
    # the C03 hole file provides refEscape; its data tables must exist
    stub03 = "package main\n\ntype c03Lay struct {\n\tname string\n\ttext []byte\n\tseps []int\n\twant any\n}\n\nvar c03Layout []c03Lay\n\nvar c03Term []c03Lay\n\nconst c03MaxSeps = 1\nconst c03MaxTerms = 1\nconst c03HoleLen = 1\n"
    files = {"zz_verif_main.go": open(os.path.join(VERIF, "harness", "main_common.go")).read(),
             "zz_verif_dump.go": open(os.path.join(VERIF, "harness", "astdump_main.go")).read(),
             "zz_verif_c03h.go": open(os.path.join(VERIF, "harness", "c03_holes_main.go")).read(),
             "zz_verif_c03stub.go": stub03,
             "zz_verif_c20.go": open(os.path.join(VERIF, "harness", "c20_main.go")).read(),
             "zz_verif_c20data.go": "".join(src)}
    names = ["Harness_C20rt", "Harness_C20layout", "Harness_C20escape", "Harness_C20class", "Harness_C20op", "Harness_C20free", "Harness_C20term"]
    ov = RepoOverlay(w, ".", "main", files, names)
    tmo = 120 if quick else 900
    agg = overlay_explore(rep, "C20", ov, "Harness_C20rt$", 0, len(rt) - 1, tmo, "c20_roundtrip", sample_every=1, max_triage=4, max_steps=20_000_000 if quick else 400_000_000)
    lay_args = [ci * maxseps + si for ci, (_, _, seps) in enumerate(lay) for si in range(len(seps))]
    agg = merge_agg(agg, overlay_explore(rep, "C20", ov, "Harness_C20layout$", 0, 0, tmo, "c20_layout", sample_every=23, max_triage=3, args=set(lay_args)))
    if term_args:
        agg = merge_agg(agg, overlay_explore(rep, "C20", ov, "Harness_C20term$", 0, 0, tmo, "c20_term", sample_every=23, max_triage=3, args=set(term_args)))
    esc_args = [q * 16 + n for q in (0, 1) for n in ((1, 3) if quick else (1, 3, 5, 9))]
    agg = merge_agg(agg, overlay_explore(rep, "C20", ov, "Harness_C20escape$", 0, 0, tmo, "c20_escape", sample_every=23, max_triage=3, args=set(esc_args)))
    agg = merge_agg(agg, overlay_explore(rep, "C20", ov, "Harness_C20class$", 0, 3 if quick else 4, tmo, "c20_class", sample_every=23, max_triage=3))
    agg = merge_agg(agg, overlay_explore(rep, "C20", ov, "Harness_C20op$", 0, 0, tmo, "c20_op", sample_every=3, max_triage=3))
    free_args = [8 * sk + k for sk in range(11) for k in range(1, (2 if quick else 3) + 1)] + [8 * sk + (3 if quick else 4) for sk in (1, 2)]
    agg = merge_agg(agg, overlay_explore(rep, "C20", ov, "Harness_C20free$", 0, 0, max(tmo, 300), "c20_free", sample_every=97, max_triage=3, args=set(free_args)))
    agg.pop("_samples", None)
    std_cov(rep, agg, rt, {"catalogue_texts": len(rt), "layout_holes": "%d symbolic layout bytes at %d token boundaries" % (hole_len, len(lay_args)),
                           "escape_holes": "valid escape bodies of length %s" % ("1,3" if quick else "1,3,5,9"), "class_holes": "<= %d printable ASCII bytes" % (3 if quick else 4),
                           "artifacts_regenerated": len(res)},
            "one state = one explored path on which both front ends take the same decisions; programs = texts compared",
            ["bootstrap.Scanner / bootstrap.Parser (hand-written front end)", "main.Parse (generated front end)", "ast.New*", "(*CharClassMatcher).parse", "strconv.Unquote (std, SSA)"])
    rep.cov["disagreements_checked"] = agg.get("cex", 0)
    rep.cov["regeneration"] = {"artifacts": len(res), "identical": len(res) - len(bad), "fixpoint_pigeon_nolint_equals_pigeon_go": same,
                               "note": "concrete byte comparison, no symbolic variable: not a solver verdict (DESIGN.md §5)"}
    rep.samples.append({"regenerated": [r["target"] for r in res[:6]]})
    rep.assumptions += ["(a) hole contents are valid per the documentation (layout bytes, valid escapes, printable class bodies): the subset both front ends must understand",
                        "(b) generators run with their working directory inside /repo (goimports resolves github.com/mna/pigeon/ast through the module of the cwd)"]
    return rep.finish()


def unicode_class_names():
    import re
    txt = open(os.path.join(REPO, "unicode_classes.go")).read()
    return re.findall(r'^\s*"([A-Za-z_0-9]+)":\s*true', txt, re.M)


def c04_witness(r1, i1, r2, i2):
    """A grammar whose rule r has a code block at expression index i (for both pairs)."""
    def rule_text(r, i, val):
        code = "{ return %d, nil }" % val
        if i == 1:
            return "%s <- 'x' %s\n" % (r, code)
        lits = " ".join("'a'" for _ in range(i - 2))
        if i == 2:
            return "%s <- ( 'z' %s ) 'y'\n" % (r, code)
        return "%s <- %s ( 'z' %s )\n" % (r, lits, code)
    top = "S <- %s / %s\n" % (r1, r2) if r1 != r2 else "S <- %s\n" % r1
    return "{\npackage p\n}\n" + top + rule_text(r1, i1, 1) + (rule_text(r2, i2, 2) if r1 != r2 else "")


def check_C04(tier, seed):
    rep = Report("C04", tier, seed, "other")
    w = Work()
    w.build_pigeon()
    quick = tier == "quick"
    # (1) kernel: method names are injective in (rule name, expression index) -- solver-decided
    ov = RepoOverlay(w, "builder", "builder", {"zz_verif_c04.go": open(os.path.join(VERIF, "harness", "c04_builder.go")).read()}, ["Harness_C04name"])
    res = ov.engine(harness="Harness_C04name$", nmin=0, nmax=8, timeout_s=120, sample_every=5)
    if res.get("errors"):
        rep.inconclusive.append("engine: " + "; ".join(res["errors"])[:600])
    paths = asserts = discharged = queries = 0
    solver_s = 0.0
    cexs = []
    for j in res.get("jobs") or []:
        paths += j["paths"]; asserts += j["assertions_checked"]; discharged += j["assertions_discharged"]; queries += j["queries"]; solver_s += j["solver_s"]
        for m in j.get("inconclusive") or []:
            rep.inconclusive.append("C04name n=%d: %s" % (j["arg"], m))
        for s in (j.get("samples") or [])[:1]:
            rep.samples.append({"harness": "Harness_C04name", "arg": j["arg"], "model": s["model"]})
        cexs += [(j["arg"], c) for c in j.get("counterexamples") or []]
    confirmed = 0
    # witnesses of the known digit-suffix collision (F4) and any other collision have separate replay budgets
    digit = [(a, c) for a, c in cexs if "ends in digits" in c.get("msg", "")]
    other = [(a, c) for a, c in cexs if "ends in digits" not in c.get("msg", "")]
    for arg, cx in digit[:2] + other[:4]:
        m = cx["model"]
        l1, l2 = 1 + arg % 3, 1 + arg // 3
        r1 = "".join(chr(m.get("r1_%d" % k, 65)) for k in range(l1))
        r2 = "".join(chr(m.get("r2_%d" % k, 65)) for k in range(l2))
        i1, i2 = m.get("i1", 1), m.get("i2", 1)
        text = c04_witness(r1, i1, r2, i2)
        rel = "c04_witness_%d/p" % confirmed
        wflags = ["-nolint"] if m.get("nolint") else []
        ok, err, code = gen_parser(w, text, wflags, rel)
        doc = {"property": "C04", "case": "funcName", "msg": cx["msg"], "model": m, "peg": text, "tags": [], "input": [], "flags": wflags,
               "witness": {"rule1": r1, "index1": i1, "rule2": r2, "index2": i2}}
        if not ok:
            rep.unconfirmed.append("C04name: witness grammar for %s was rejected by the tool: %s" % (doc["witness"], err[-200:]))
            continue
        b = subprocess.run(["go", "build", "./" + rel], cwd=w.mod, env=base_env(), capture_output=True, text=True, errors="replace")
        if b.returncode == 0:
            rep.unconfirmed.append("C04name: witness grammar for %s compiles; the engine's collision does not reproduce" % doc["witness"])
            continue
        confirmed += 1
        doc["native"] = b.stderr[-400:]
        k = match_known("C04", doc)
        if k is not None:
            short = "%s %s" % (k["id"], k["what"])
            if short not in rep.known:
                rep.known.append(short)
            rep.cov.setdefault("known_finding_witnesses", []).append("rules %s (code block at index %d) and %s (index %d): %s" % (r1, i1, r2, i2, b.stderr.strip().splitlines()[-1][:160]))
        else:
            rep.violation(save_replay("C04", doc), "rules %s (block at expression index %d) and %s (index %d) both yield method on%s%d: generated code does not compile: %s" % (
                r1, i1, r2, i2, r1, i1, b.stderr.strip()[-200:]))
    # (2) by-product (concrete): generated parsers for catalogue grammars x flag sets type-check, vet and initialise
    classes = unicode_class_names() + list("LMNCPZS")
    allcls = gspec.grammar("c04_allclasses", [gspec.rule("S", gspec.act(gspec.label("x", gspec.star(gspec.cls(classes=classes))), gspec.b_rec("s")))])
    base = [allcls] + cores.composites()[:3] + cores.state_catalogue()[:2] + cores.throw_catalogue()[:2] + cores.context_catalogue()[:2] + cores.fault_catalogue()[:1]
    base += [g for g in cores.opt_catalogue() if g["name"].startswith(("og_sharedcode", "og_entry"))]
    base += [g for g in cores.throw_catalogue() if g["name"] in ("tr_lblshare", "tr_duplist", "tr_lblshadow")]
    base += rnd_cat(tier, seed, 6, 40, ("state", "throw"))
    if not quick:
        base += cores.composites()[3:] + cores.state_catalogue()[2:8] + cores.throw_catalogue()[2:] + cores.opt_catalogue()[::3] + cores.pair_core()[::10]
    flag_bits = [("-optimize-parser", "o"), ("-optimize-grammar", "g"), ("-optimize-basic-latin", "b"), ("-support-left-recursion", "l"), ("-nolint", "n")]
    combos = []
    rnd = random.Random(seed)
    all_masks = list(range(32))
    cases = []
    for gi, g in enumerate(base):
        masks = all_masks if not quick else sorted(set([0, 31] + rnd.sample(all_masks, 4)))
        for mask in masks:
            flags = [f for k, (f, _) in enumerate(flag_bits) if mask >> k & 1]
            tag = "".join(c for k, (_, c) in enumerate(flag_bits) if mask >> k & 1) or "none"
            alt = [e for e in (g.get("entries") or []) if e]
            if alt:
                flags = flags + ["-alternate-entrypoints", ",".join(alt)]
                tag += "_e" + "".join(alt)
            FLAGSETS["c04_" + tag] = flags
            if gspec.uses_state(g) and not gspec.has_state_block(g) and "-optimize-parser" in flags:
                continue
            cases.append(ref_case(g, ["C04init"], flagset="c04_" + tag))
    # left-recursive grammars (one of them with state blocks): every flag subset that contains -support-left-recursion
    lrg = [g for g in cores.lr_catalogue() if g["name"] in (("lr_state", "lr_indirect") if quick else tuple(x["name"] for x in cores.lr_catalogue()))]
    for g in lrg:
        masks = [m for m in all_masks if m >> 3 & 1]
        if quick:
            masks = sorted(set([8, 9, 31] + rnd.sample(masks, 3)))
        for mask in masks:
            flags = [f for k, (f, _) in enumerate(flag_bits) if mask >> k & 1]
            tag = "".join(c for k, (_, c) in enumerate(flag_bits) if mask >> k & 1)
            FLAGSETS["c04_" + tag] = flags
            cases.append(ref_case(g, ["C04init"], flagset="c04_" + tag))
    catcheck.prepare(w, cases)
    gen_fail = [c for c in cases if c.gen_errors]
    for c in gen_fail:
        # an accepted catalogue grammar that the tool rejects under some flag set
        pass
    agg = catcheck.explore(w, rep, cases, "C04", r"Harness_C04init$", 1, 120, "ref", seed=seed, validate_pkgs=4, nmin=1)
    # a type-check failure of generated code surfaces as an engine package error: confirm natively
    good = [c for c in cases if not c.gen_errors]
    vet = subprocess.run(["go", "vet"] + ["./" + c.harness_rel for c in good], cwd=w.mod, env=base_env(), capture_output=True, text=True, errors="replace")
    vet_ok = vet.returncode == 0
    if not vet_ok:
        lines = [l for l in vet.stderr.splitlines() if l and not l.startswith("#")]
        # report per package
        seen = set()
        for l in lines[:20]:
            mm = re.search(r"([A-Za-z0-9_]+)/p/", l)
            pk = mm.group(1) if mm else l.split("/p/")[0]
            if pk in seen:
                continue
            seen.add(pk)
            cid = pk
            cs = next((c for c in good if c.id == cid), None)
            doc = {"property": "C04", "case": cid, "msg": "go vet / build: " + l[:200], "peg": cs.peg if cs else "", "flags": cs.meta.get("flagset") if cs else "", "tags": [], "input": [], "model": {}}
            k = match_known("C04", doc)
            if k is not None:
                rep.known.append("%s %s" % (k["id"], k["what"]))
            else:
                rep.violation(save_replay("C04", doc), "generated parser of catalogue grammar %s does not build/vet: %s" % (cid, l[:200]))
    # (3) optimizer-made label clash (two rules with the same label, one inlined into the other)
    # witness grammars of the known ways to obtain a duplicate declaration (each is re-confirmed with go build; the day
    # one of them compiles it simply stops being reported; any other compile failure of these texts is a violation)
    witnesses = [
        ("inlined_label_clash", "{\npackage p\n}\nS <- v:'a' A { return v, nil }\nA <- v:'b' 'c'?\n", ["-optimize-grammar"], ["inlined-label-clash"]),
        ("duplicate_rule_blocks", "{\npackage p\n}\nS <- A\nA <- 'a' { return 1, nil }\nA <- 'b' { return 2, nil }\n", [], ["duplicate-rule"]),
        ("duplicate_label_in_scope", "{\npackage p\n}\nS <- a:'x' b:'y' ('z' a:'w') { return a, nil }\n", [], ["duplicate-label"]),
    ]
    for wi, (wname, wpeg, wflags, wtags) in enumerate(witnesses):
        ok, err, code = gen_parser(w, wpeg, wflags, "c04_wit%d/p" % wi)
        if not ok:
            continue  # rejected with a diagnostic: nothing was emitted, C04 is not concerned
        b = subprocess.run(["go", "build", "./c04_wit%d/p" % wi], cwd=w.mod, env=base_env(), capture_output=True, text=True, errors="replace")
        if b.returncode != 0:
            doc = {"property": "C04", "case": wname, "msg": "generated code does not compile: " + b.stderr.strip()[-200:], "peg": wpeg, "flags": wflags, "tags": wtags, "input": [], "model": {}}
            k = match_known("C04", doc)
            if k is not None:
                short = "%s %s" % (k["id"], k["what"])
                if short not in rep.known:
                    rep.known.append(short)
            else:
                rep.violation(save_replay("C04", doc), "%s %s: %s" % (wname, " ".join(wflags), b.stderr.strip()[-200:]))
    rep.cov.update({
        "explanation": "Reduced claim (DESIGN.md §5): 'compiles and passes vet' is decided by the Go type checker over emitted text and has no SMT encoding. Solver-decided: injectivity of the generated method names in (rule name, expression index), names of 1..3 symbolic identifier characters, indices 1..999 (strconv.Itoa summarised symbolically). Concrete by-product: %d generated parsers (catalogue grammars x flag subsets, one grammar using all %d Unicode classes the front end accepts) are type-checked (go/packages), vetted (go vet) and initialised and run on all 1-byte inputs in the engine." % (len(good), len(classes)),
        "obligations": asserts + len(good) * 2, "discharged": discharged + (len(good) * 2 if vet_ok and not rep.inconclusive else 0),
        "kernel_paths": paths, "kernel_queries": queries, "kernel_solver_s": round(solver_s, 2), "kernel_counterexamples": len(cexs), "kernel_counterexamples_confirmed_by_go_build": confirmed,
        "generated_parsers_checked": len(good), "go_vet_clean": vet_ok, "unicode_classes": len(classes),
        "engine_paths": agg["paths"], "engine_queries": agg["queries"], "evaluations": paths + agg["paths"], "distinct_nontrivial": agg["completed"] + paths,
        "functions_encoded": ["(*builder).funcName", "strconv.Itoa (symbolic summary)", "generated package init + Parse"],
        "rule": "kernel: one path per digit-count combination of the two indices; by-product: one package per grammar x flag set",
    })
    rep.assumptions += ["well-typed code blocks (the menu blocks)", "-cache, -debug, -no-recover, -o, -x, -receiver-name affect main() only and are outside"]
    return rep.finish()


def check_C18(tier, seed):
    quick = tier == "quick"
    cat = cores.state_catalogue()[:: (4 if quick else 1)] + cores.composites()[: (3 if quick else 10)] + cores.context_catalogue()[:2] + cores.throw_catalogue()[:2]
    cat = cat + [g for g in cores.throw_catalogue() if g["name"] in ("tr_rcvchoice", "tr_lblshare")]
    cat = cat + [g for g in cores.composites() if g["name"] in ("c_longclass",) and g not in cat]
    cat = cat + [g for g in cores.state_catalogue() if g["name"] in ("st_throw_2fail",) and g not in cat]
    cat = cat + rnd_cat(tier, seed, 4, 40, ("state", "throw"))
    lr = cores.lr_catalogue()[: (1 if quick else 3)]
    rep = Report("C18", tier, seed, "other")
    w = Work()
    w.build_pigeon()
    N, tmo = (1, 400) if quick else (2, 3000)
    cases = []
    for g in cat:
        for fs in ("std", "opt"):
            if fs == "opt" and gspec.uses_state(g) and not gspec.has_state_block(g):
                continue
            cases.append(ref_case(g, ["C18"], flagset=fs))
    for g in lr:
        cases.append(ref_case(g, ["C18"], flagset="lr"))
    def confirm(w_, rel, hname, arg, model, msg):
        """A discipline violation seen by the engine monitor has no assertion in the
        sequential native harness: confirm it with the race detector on a concurrent run."""
        if hname == "Harness_C18order":
            # two processes: Parse(b) after Parse(a), and Parse(b) alone; the digests (value, errors, trace, statistics) must agree
            tb = test_binary(w_, rel)
            if tb is None:
                return None
            mp = os.path.join(w_.dir, "order-model-%s.json" % hashlib.sha1(json.dumps([rel, arg, model], sort_keys=True).encode()).hexdigest()[:10])
            with open(mp, "w") as f:
                json.dump({"model": model}, f)
            digests = {}
            raw = ""
            for mode in ("after", "alone"):
                env = base_env()
                env.update({"VERIF_REPLAY": mp, "VERIF_HARNESS": hname, "VERIF_ARG": str(arg), "VERIF_MODE": mode})
                text, timed_out = run_group([tb, "-test.run", "TestReplay$", "-test.v"], cwd=os.path.join(w_.mod, rel), env=env, timeout=60)
                raw += text
                nat1 = parse_native(text)
                digests[mode] = [x for x in nat1["notes"] if x.startswith("digest:")]
            nat = parse_native(raw)
            nat["notes"] = []
            if digests["after"] and digests["alone"] and digests["after"] != digests["alone"]:
                nat["fails"] = [msg + " [two processes: after=%s alone=%s]" % (digests["after"][0][:200], digests["alone"][0][:200])]
            else:
                nat["fails"] = []
            return nat
        if not msg.startswith("C18: a ") and "pool" not in msg:
            return None
        out = os.path.join(w_.dir, "tb", "race_" + hashlib.sha1(rel.encode()).hexdigest()[:10] + ".test")
        os.makedirs(os.path.dirname(out), exist_ok=True)
        if not os.path.exists(out):
            b = subprocess.run(["go", "test", "-race", "-vet=off", "-c", "-o", out, "./" + rel], cwd=w_.mod, env=base_env(), capture_output=True, text=True, errors="replace")
            if b.returncode != 0:
                log("race build failed:", b.stderr[-400:])
                return None
        mp = os.path.join(w_.dir, "race-model-%s.json" % hashlib.sha1(json.dumps([rel, arg, model], sort_keys=True).encode()).hexdigest()[:10])
        with open(mp, "w") as f:
            json.dump({"model": model}, f)
        env = base_env()
        env.update({"VERIF_REPLAY": mp, "VERIF_HARNESS": "Harness_C18nativeopts" if "Option" in msg else "Harness_C18native", "VERIF_ARG": str(arg)})
        text, timed_out = run_group([out, "-test.run", "TestReplay$", "-test.v"], cwd=os.path.join(w_.mod, rel), env=env, timeout=180)
        nat = parse_native(text)
        if "WARNING: DATA RACE" in text:
            nat["fails"].append("race detector: DATA RACE")
        if "fatal error: concurrent map" in text:
            nat["fails"].append("fatal error: concurrent map access")
        nat["timeout"] = timed_out
        return nat
    for c_ in cases:
        c_.harness_names = ["Harness_C18", "Harness_C18native", "Harness_C18abort", "Harness_C18order", "Harness_C18reader", "Harness_C18opts", "Harness_C18sharedopts", "Harness_C18nativeopts"]
    catcheck.prepare(w, cases)
    # (quick: every second case under the full monitor with a nondeterministic pool - the dearest family)
    agg = catcheck.explore(w, rep, cases[::2] if quick else cases, "C18", r"Harness_C18$", N, tmo, "ref", seed=seed, validate_pkgs=5 if quick else 16, confirm=confirm)
    # aborted middle call (symbolic expression budget): grammars with rules, labels, state and recovery operators
    ab = [c_ for c_ in cases if c_.id.startswith(("tr_", "c_", "st_inc_rule", "st_inc_first", "lr_", "rnd"))]
    if quick:
        ab = [c_ for c_ in ab if c_.id.endswith(("_std", "_lr"))][:3] + [c_ for c_ in ab if c_.id.endswith("_opt")][:2] + [c_ for c_ in ab if c_.id.startswith("rnd")][:2]
    agg = merge_agg(agg, catcheck.explore(w, rep, ab, "C18", r"Harness_C18abort$", N, tmo, "ref", seed=seed, validate_pkgs=3 if quick else 8, confirm=confirm))
    # the same calls through ParseReader (action-less values are slices of the input: a buffer shared between calls shows in them)
    rd = [c_ for c_ in cases if c_.id.startswith(("c_", "cx_", "tr_", "rnd"))]
    if quick:
        rd = rd[:3] + [c_ for c_ in rd if c_.id.startswith("rnd")][:2]
    agg = merge_agg(agg, catcheck.explore(w, rep, rd, "C18", r"Harness_C18reader$", N, tmo, "ref", seed=seed, validate_pkgs=2 if quick else 6, confirm=confirm))
    # the middle call with every runtime option set to its non-default value
    agg = merge_agg(agg, catcheck.explore(w, rep, rd, "C18", r"Harness_C18opts$", N, tmo, "ref", seed=seed, validate_pkgs=2 if quick else 6, confirm=confirm))
    # one option list handed to all three calls, everything reachable from it under the ownership monitor
    agg = merge_agg(agg, catcheck.explore(w, rep, rd, "C18", r"Harness_C18sharedopts$", N, tmo, "ref", seed=seed, validate_pkgs=2 if quick else 6, confirm=confirm))
    # order independence against a fresh process (first-call-wins caches): all cases, no monitor
    agg = merge_agg(agg, catcheck.explore(w, rep, cases, "C18", r"Harness_C18order$", N, tmo, "ref", seed=seed, validate_pkgs=3 if quick else 8, confirm=confirm))
    rep.cov.update({
        "explanation": "Goroutine interleavings are not encoded (DESIGN.md §5). Decided by the solver for all pairs of inputs within the bound on the catalogue: (1) during Parse no store, map update or delete targets an object reachable from a package-level variable of the generated package (engine monitor on every Store/MapUpdate/delete); (2) a map is empty when it is handed to sync.Pool.Put and is not read or written again until Pool.Get returns it; (3) Pool.Get returns nondeterministically any pooled map or a fresh one and the result of a Parse is the same as when it ran first. Given 1-3 and the linearizability of sync.Pool (trusted), two concurrent calls share no mutable location: every schedule yields the sequential results and there is no data race - a paper argument, stated as such.",
        "evaluations": agg["paths"], "distinct_nontrivial": agg["completed"], "programs": len(cases),
        "paths": agg["paths"], "queries": agg["queries"], "solver_s": round(agg["solver_s"], 2), "assertions_checked": agg["asserts"],
        "assertions_discharged": agg["discharged"], "counterexamples_from_solver": agg["cex"],
        "cross_validated_paths": agg["validated"], "traces_validated_against_impl": agg["validated_ok"],
        "bounds": {"input_bytes_max_each": N, "calls": "Parse(b) alone, then Parse(a), then Parse(b) again, Memoize symbolic per call (standard parsers); second family: the middle call aborted by a symbolic MaxExpressions budget in [1,20]; third family: Parse(b) after Parse(a) against Parse(b) in a fresh process (package-level variables back to their initial values), statistics included", "pool": "at most one Get per path deviates from LIFO (fresh map or oldest pooled map)"},
        "functions_encoded": RUNTIME_FUNCS + ["sync.Pool model: LIFO list + nondeterministic Get"],
        "rule": "one evaluation = one explored path (pair of input classes x pool choices x options)",
        "stubs_and_intrinsics": agg.get("externals", []),
    })
    rep.assumptions += ["sync.Pool is linearizable (trusted)", "user code blocks that touch package-level state are outside (menu blocks only write through the documented stores)",
                        "schedules are covered by the ownership argument, not enumerated; the race detector's view of the standard library is outside"]
    return rep.finish()


SELFTEST = [
    # (package dir in /repo, package name, inputs, extra options expression)
    ("test/andnot", "andnot", ["", "a", "b", "ab", "ba", "aab", "aabbaba", "abc", "c", "dcddcc", "dcddccdd", " cdd "], ""),
    ("test/predicates", "predicates", ["", "a", "ab", "abc", "b", "aBc", "x"], ""),
    ("test/errorpos", "errorpos", ["", "a", "ab", "abc", "case01", "case 01 ab", "x\ny", "\u00e9"], ""),
    ("examples/calculator", "main", ["", "1", "1+2", "(1+2)*3", "1 + 2 *", "2*(3", " 12 / 4 ", "1/0", "a"], ""),
    ("test/labeled_failures", "labeledfailures", ["", "a", "a,b", "a b", "a,1", "1", "a,,b", "ab,cd,"], ""),
    ("test/thrownrecover", "thrownrecover", ["", "a", "1", "case01", "case01:1", "case02:", "case03:ab1"], ""),
    ("test/state", "state", ["", "a", "ab", "abc", "b", "abcabc"], ""),
    ("test/staterestore/standard", "staterestore", ["", "a", "ab", "abc", "x", "abcd"], ""),
    ("test/left_recursion/standart/leftrecursion", "leftrecursion", ["", "1", "1+2", "1+2*3", "-1", "(1+2)*3", "1++", "2*(3-1)"], ""),
    ("test/issue_65", "issue65", ["", "a", "ab", "abc", "x"], ""),
    ("examples/json", "json", ["", "1", "[1,2]", "{\"a\":[true,null]}", "[1,", "\"\\u00e9\"", "{\"a\":1,}"], ""),
]


def selftest(tier, seed):
    """Translator validation: the engine executes the repository's own checked-in
    parsers on concrete inputs; every result must equal the native one."""
    rep = Report("selftest", tier, seed, "other")
    w = Work()
    total = ok = 0
    for rel, pkg, inputs, _ in SELFTEST:
        if not os.path.isdir(os.path.join(REPO, rel)):
            continue
        src = ["package %s\n\nimport \"fmt\"\n\nvar stInputs = []string{%s}\n" % (pkg, ", ".join(go_str_lit(s) for s in inputs))]
        src.append('''
func Harness_ST(n int) {
	in := stInputs[n]
	v, err := Parse("", []byte(in))
	es := ""
	if err != nil {
		es = err.Error()
	}
	symNote(fmt.Sprintf("%q => %v | %s", in, v != nil, es))
	symReach("end")
}
''')
        ov = RepoOverlay(w, rel, pkg, {"zz_verif_selftest.go": "".join(src)}, ["Harness_ST"])
        before = len(rep.unconfirmed)
        agg = overlay_explore(rep, "selftest", ov, "Harness_ST$", 0, len(inputs) - 1, 120, "selftest:" + rel, sample_every=1, max_triage=3, max_steps=50_000_000)
        total += agg["validated"]
        ok += agg["validated_ok"]
        log("selftest %-48s %d/%d inputs agree with the native run" % (rel, agg["validated_ok"], agg["validated"]))
    rep.cov.update({"explanation": "engine vs native on the repository's checked-in parsers, concrete inputs", "evaluations": total, "distinct_nontrivial": ok})
    print("selftest: %d of %d concrete parses agree between the engine and the native build" % (ok, total))
    if rep.unconfirmed or rep.inconclusive or ok != total or total == 0:
        for m in (rep.unconfirmed + rep.inconclusive)[:10]:
            print("  ", m[:400])
        return 2
    return 0


LEM_STATE = {
    # the store of the pre-state holds a plain value and a value implementing Cloner (mutated in place by the blocks below)
    "STATE_INIT": 'p.cur.state["k"] = 5\n\tp.cur.state["b"] = lemBox{p: new(int)}',
    "STATE_SNAP": 's.state = map[string]any{}\n\tfor k, v := range p.cur.state {\n\t\tif b, isBox := v.(lemBox); isBox {\n\t\t\ts.state[k] = *b.p\n\t\t} else {\n\t\t\ts.state[k] = v\n\t\t}\n\t}',
    "KID_MUT": 'if symChoose("kid_mut", 2) == 1 {\n\t\tval := 100 + i\n\t\titems = append([]any{&stateCodeExpr{run: func(q *parser) error {\n\t\t\tq.cur.state["k"] = val\n\t\t\tq.cur.state["new"] = 1\n\t\t\t*q.cur.state["b"].(lemBox).p += 10\n\t\t\treturn nil\n\t\t}}}, items...)\n\t}',
    "STATE_EQ_ALWAYS": 'symAssert(lemStateEq(p, e), "predicate: the state store is not rolled back after a predicate")',
    "STATE_EQ": 'symAssert(lemStateEq(p, e), what+": a failing expression left the state store changed")',
    "ACTION_MUT": 'q.cur.state["k"] = 77\n\t\tq.cur.state["tmp"] = 1\n\t\t*q.cur.state["b"].(lemBox).p += 1',
    "ACTION_STATE": '_, hasTmp := p.cur.state["tmp"]\n\t\tsymAssert(!hasTmp && !symEqual(p.cur.state["k"], 77) && *p.cur.state["b"].(lemBox).p%10 == 0, "action: changes made to the state inside an action block were kept (assignment or in-place change of a Cloner value)")',
    "BLOCK_STATE": 'symAssert(lemStateEq(p, e), "code predicate: changes made to the state inside a predicate block were kept (assignment or in-place change of a Cloner value)")',
    "STATEBLOCK_KEPT": '_, hasTmp := p.cur.state["tmp"]\n\tsymAssert(hasTmp && symEqual(p.cur.state["k"], 77) && *p.cur.state["b"].(lemBox).p == e.state["b"].(int)+1, "state block: its changes to the store are not kept")',
}
LEM_STATE_HELPER = '''
type lemBox struct{ p *int }

func (b lemBox) Clone() any {
	v := *b.p
	return lemBox{p: &v}
}

func lemStateEq(p *parser, e lemSnapT) bool {
	if len(p.cur.state) != len(e.state) {
		return false
	}
	for k, v := range e.state {
		w, ok := p.cur.state[k]
		if !ok {
			return false
		}
		if b, isBox := w.(lemBox); isBox {
			w = *b.p
		}
		if !symEqual(v, w) {
			return false
		}
	}
	return true
}
'''


def lemma_case(name, flags, with_state):
    """A generated parser (trivial grammar; the runtime is what matters) plus the lemma harnesses."""
    # (the class with \\p{Lu} makes the builder emit the rangeTable helper the class lemmas use)
    peg = "{\npackage p\n}\nS <- 'a' %s [\\p{Lu}]? .*\n" % ("#{ return nil }" if with_state else "")
    rel = "lem_%s/p" % name
    src = open(os.path.join(VERIF, "harness", "lemmas_parser.go.tmpl")).read().replace("PKGPATH", "vh/" + rel)
    # order matters: STATE_EQ_ALWAYS before STATE_EQ
    for key in ("STATEBLOCK_KEPT", "BLOCK_STATE", "STATE_EQ_ALWAYS", "STATE_INIT", "STATE_SNAP", "KID_MUT", "STATE_EQ", "ACTION_MUT", "ACTION_STATE"):
        src = src.replace(key, LEM_STATE[key] if with_state else "")
    if with_state:
        src += LEM_STATE_HELPER
        src = src.replace("LEM_STATE_BEGIN\n", "").replace("LEM_STATE_END\n", "")
    else:
        src = re.sub(r"LEM_STATE_BEGIN.*?LEM_STATE_END\n", "", src, flags=re.S)
    # the tracing helpers only exist in parsers generated without -optimize-parser
    if "-optimize-parser" in flags:
        src = re.sub(r"LEM_DEBUG_BEGIN.*?LEM_DEBUG_END\n", "", src, flags=re.S)
    else:
        src = src.replace("LEM_DEBUG_BEGIN\n", "").replace("LEM_DEBUG_END\n", "")
    names = re.findall(r"func (Harness_Lem\w+)\(", src)
    return catcheck.Case("lem_" + name, [(rel, peg, flags)], rel, {"lemmas.go": src}, names, peg=peg, meta={"flags": flags})


def run_lemmas(w, rep, prop, which, N, tmo=300, key="lemma_obligations", only_std=False):
    """Runs the lemma harnesses `which` (regex alternatives) on the four template instances."""
    cases = [lemma_case("std", [], True), lemma_case("optstate", ["-optimize-parser"], True), lemma_case("opt", ["-optimize-parser"], False)]
    if only_std:
        cases = cases[:1]
    catcheck.prepare(w, cases)
    hre = r"Harness_Lem(%s)$" % "|".join(which)
    agg = catcheck.explore(w, rep, cases, prop, hre, N, tmo, "lemma", seed=0, validate_pkgs=3, sample_every=200)
    rep.cov[key] = {"functions": ["parse%sExpr/Matcher" % x for x in which], "template_instances": ["standard", "-optimize-parser with state", "-optimize-parser without state"],
                                    "input_bytes_max": N, "paths": agg["paths"], "assertions_checked": agg["asserts"], "assertions_discharged": agg["discharged"],
                                    "counterexamples": agg["cex"], "note": "children are real expression nodes whose behaviour is chosen nondeterministically among those contract K allows (fail, consume-then-fail, succeed consuming 0 or 1 rune, with or without a state change; plain, labelled action or rule reference); pre-state: any canonical position, symbolic input; runs natively as well"}
    return agg

"""Catalogue-driven checks: generate parsers with the real tool, add harnesses,
run the engine over all of them, confirm counterexamples natively."""
import json, os, random, re, subprocess, time
from driver import *
import gspec


class ReplayDone(Exception):
    def __init__(self, failed):
        self.failed = failed


class Case:
    def __init__(self, cid, variants, harness_rel, files, harness_names, tags=(), peg="", meta=None):
        self.id = cid
        self.variants = variants        # list of (rel dir, peg text, flags)
        self.harness_rel = harness_rel  # package dir (relative to module) holding the harness
        self.files = files              # extra files for the harness package {name: text}
        self.harness_names = harness_names
        self.tags = list(tags)
        self.peg = peg
        self.meta = meta or {}
        self.gen_errors = []


def prepare(w, cases):
    """Generate all parsers (in parallel) and write harness packages."""
    rdoc = os.environ.get("VERIF_REPLAY_DOC")
    if rdoc:
        with open(rdoc) as f:
            want = json.load(f)["case"]
        cases[:] = [c for c in cases if c.id == want]
    only = os.environ.get("VERIF_ONLY")  # development aid: a regular expression on case ids
    if only:
        cases[:] = [c for c in cases if re.search(only, c.id) or "twin" in c.id]
    jobs = []
    for c in cases:
        for rel, peg, flags in c.variants:
            jobs.append((c, rel, peg, flags))

    def gen(j):
        c, rel, peg, flags = j
        ok, err, code = gen_parser(w, peg, flags, rel)
        if not ok:
            c.gen_errors.append((rel, flags, code, err.strip()[-400:]))
        return ok

    pmap(gen, jobs)
    for c in cases:
        if c.gen_errors:
            continue
        pkg = os.path.basename(c.harness_rel)
        write_pkg(w, c.harness_rel, c.files, harness_names=c.harness_names, pkg=pkg)
    tick("generate %d" % len(jobs))


def explore(w, report, cases, prop, harness_re, nmax, per_job_timeout, family, nmin=0, sample_every=25,
            validate_pkgs=8, seed=0, max_steps=2_000_000, chunk=120, wall_limit=None, expect_cex=False,
            solver="z3-new", twin_re=None, confirm=None):
    """Run the engine over the cases' harness packages; triage counterexamples.
    Returns aggregate stats."""
    good = [c for c in cases if not c.gen_errors]
    only = os.environ.get("VERIF_ONLY")
    if only:
        good = [c for c in good if re.search(only, c.id) or "twin" in c.id]
        cases = [c for c in cases if re.search(only, c.id) or "twin" in c.id]
    rdoc = os.environ.get("VERIF_REPLAY_DOC")
    if rdoc:
        with open(rdoc) as f:
            doc = json.load(f)
        for c in good:
            if c.id == doc["case"]:
                nat = None
                if confirm is not None:
                    # counterexamples of an engine monitor are confirmed by a procedure of their own (race detector,
                    # instrumented scratch copy): the replay uses the same one
                    nat = confirm(w, c.harness_rel, doc["harness"], doc["arg"], doc["model"], doc.get("msg", ""))
                if nat is None:
                    nat = native_run(w, c.harness_rel, doc["harness"], doc["arg"], doc["model"])
                print(nat["raw"])
                print("REPLAY case=%s input=%r fails=%s panic=%s timeout=%s" % (c.id, bytes(doc.get("input", [])), nat["fails"], nat["panic"], nat["timeout"]))
                report.replayed = 1 if (nat["fails"] or nat["panic"] or nat["timeout"]) else 0
                raise ReplayDone(report.replayed)
        raise Inconclusive("replay: case %s not found in the catalogue of %s" % (doc["case"], prop))
    for c in cases:
        for rel, flags, code, err in c.gen_errors:
            report.inconclusive.append("%s: pigeon %s rejected the catalogue grammar (exit %s): %s" % (c.id, " ".join(flags), code, err))
    agg = {"jobs": 0, "paths": 0, "completed": 0, "decisions": 0, "queries": 0, "solver_s": 0.0, "asserts": 0,
           "discharged": 0, "dropped": 0, "steps": 0, "cex": 0, "validated": 0, "validated_ok": 0, "engine_wall_s": 0.0,
           "reach_end": 0, "load_s": 0.0}
    by_rel = {c.harness_rel: c for c in good}
    samples_by_rel = {}
    externals = set()
    triaged = {}
    for i in range(0, len(good), chunk):
        part = good[i:i + chunk]
        pkgs = ",".join("./" + c.harness_rel for c in part)
        res = run_engine(w, pkgs=pkgs, harness=harness_re, nmin=nmin, nmax=nmax, timeout_s=per_job_timeout,
                         sample_every=sample_every, max_steps=max_steps, wall_limit=wall_limit, solver=solver)
        if res.get("errors") and not res.get("jobs"):
            # a generated package that does not type-check stops the whole load: leave those cases out
            # (reported as inconclusive; C04 turns them into violations) and explore the rest
            bad = set(re.findall(r"/h/([A-Za-z0-9_.+-]+)/(?:p|a|b|hx)/", " ".join(res["errors"])))
            keep = [c for c in part if c.id not in bad]
            if bad and len(keep) < len(part):
                for cid in sorted(bad):
                    msg = next((e for e in res["errors"] if "/h/%s/" % cid in e), "")
                    cc = next((c for c in part if c.id == cid), None)
                    ktag = next((t for t in (cc.tags if cc else []) if t.startswith("known-if-not-type-checking:")), None)
                    if ktag:
                        # the case exists to catch a wrong parser should the known compile failure ever go away
                        k = next((f for f in load_known() if f["id"] == ktag.split(":", 1)[1] and f.get("status") == "known"), None)
                        if k is not None:
                            short = "%s %s" % (k["id"], k["what"])
                            if short not in report.known:
                                report.known.append(short)
                            continue
                    report.inconclusive.append("%s: generated code does not type-check: %s" % (cid, msg[-200:]))
                    report.cov.setdefault("packages_not_type_checking", []).append(cid)
                if keep:
                    res = run_engine(w, pkgs=",".join("./" + c.harness_rel for c in keep), harness=harness_re, nmin=nmin, nmax=nmax,
                                     timeout_s=per_job_timeout, sample_every=sample_every, max_steps=max_steps, wall_limit=wall_limit, solver=solver)
                else:
                    continue
        if res.get("errors"):
            report.inconclusive.append("engine: " + "; ".join(res["errors"])[:600])
            if not res.get("jobs"):
                continue
        agg["engine_wall_s"] += res.get("wall_s", 0)
        agg["load_s"] += res.get("load_s", 0)
        externals.update(res.get("externals") or [])
        for j in res.get("jobs") or []:
            pkgpath, hname = j["harness"].rsplit(".", 1)
            rel = pkgpath[len("vh/"):]
            c = by_rel.get(rel)
            agg["jobs"] += 1
            for k_src, k_dst in (("paths", "paths"), ("completed", "completed"), ("decisions", "decisions"), ("queries", "queries"),
                                 ("assertions_checked", "asserts"), ("assertions_discharged", "discharged"),
                                 ("dropped_by_assumption", "dropped"), ("ssa_steps", "steps")):
                agg[k_dst] += j.get(k_src, 0)
            agg["solver_s"] += j.get("solver_s", 0)
            agg["reach_end"] += (j.get("reached") or {}).get("end", 0)
            hang_cex = any((cx.get("msg") or "").startswith("step limit") for cx in j.get("counterexamples") or [])
            for m in j.get("inconclusive") or []:
                if hang_cex and m.startswith("step limit"):
                    continue  # decided by the native replay of the model (triage below)
                report.inconclusive.append("%s %s n=%d: %s" % (rel, hname, j["arg"], m))
            if (j.get("reached") or {}).get("end", 0) == 0 and j.get("completed", 0) > 0 and not j.get("counterexamples"):
                report.inconclusive.append("%s %s n=%d: vacuous (no path reached the end marker)" % (rel, hname, j["arg"]))
            for s in j.get("samples") or []:
                samples_by_rel.setdefault(rel, []).append({"harness": hname, "arg": j["arg"], "model": s["model"], "notes": s.get("notes") or [], "outcome": s["outcome"]})
            for cx in j.get("counterexamples") or []:
                agg["cex"] += 1
                # native confirmation is capped. Counterexamples that fit the pattern of a listed
                # known finding are budgeted separately (1 per case and finding, 8 per run), so that
                # they cannot use up the slots of a violation that is not listed (1 per case and
                # message, 3 per case, 12 per run).
                msg = cx.get("msg") or ""
                is_hang = msg.startswith("step limit")
                model = cx.get("model") or {}
                pre = match_known(prop, {"case": c.id if c else rel, "tags": c.tags if c else [], "msg": msg, "model": model,
                                         "input": model_bytes(model), "peg": c.peg if c else "", "native": {"notes": cx.get("notes") or []}})
                if pre is not None:
                    key = ("known", rel, pre["id"])
                    if triaged.get(key, 0) >= 1 or triaged.get("known_total", 0) >= 8:
                        agg["cex_not_triaged"] = agg.get("cex_not_triaged", 0) + 1
                        continue
                    triaged[key] = 1
                    triaged["known_total"] = triaged.get("known_total", 0) + 1
                else:
                    key = ("new", rel, "hang" if is_hang else msg)
                    if triaged.get(key, 0) >= 1 or triaged.get(("new", rel), 0) >= 3 or triaged.get("new_total", 0) >= 12:
                        agg["cex_not_triaged"] = agg.get("cex_not_triaged", 0) + 1
                        continue
                    triaged[key] = 1
                    triaged[("new", rel)] = triaged.get(("new", rel), 0) + 1
                    triaged["new_total"] = triaged.get("new_total", 0) + 1
                triage(w, report, prop, family, c, rel, hname, j["arg"], cx, confirm=confirm)
    tick("explore %s (%d cases)" % (harness_re, len(good)))
    # cross-validation of sampled paths against the native build
    rels = sorted(samples_by_rel)
    rnd = random.Random(seed)
    rnd.shuffle(rels)
    for rel in rels[:validate_pkgs]:
        items = samples_by_rel[rel][:40]
        got = native_batch(w, rel, [{"harness": it["harness"], "arg": it["arg"], "model": it["model"]} for it in items])
        if got is None:
            report.inconclusive.append("%s: native cross-validation run failed" % rel)
            continue
        for it, nat in zip(items, got):
            agg["validated"] += 1
            eng_notes = [x for x in it["notes"]]
            if nat["fails"] or nat["panic"] or sorted(nat["notes"]) != sorted(eng_notes):
                report.unconfirmed.append("%s %s n=%d model=%s: engine path (notes %s) vs native (fails %s, panic %s, notes %s)" % (
                    rel, it["harness"], it["arg"], it["model"], eng_notes, nat["fails"], nat["panic"], nat["notes"]))
            else:
                agg["validated_ok"] += 1
    tick("native cross-validation")
    agg["externals"] = sorted(externals)
    for rel in rels[:6]:
        for it in samples_by_rel[rel][:2]:
            report.samples.append({"case": rel, "harness": it["harness"], "n": it["arg"], "input_model": it["model"], "path_notes": it["notes"]})
    return agg


def model_bytes(model, name="in"):
    out = []
    i = 0
    while "%s_%d" % (name, i) in model:
        out.append(model["%s_%d" % (name, i)])
        i += 1
    return out


def triage(w, report, prop, family, c, rel, hname, arg, cx, confirm=None):
    """Replay a counterexample natively; report only what reproduces."""
    model = cx.get("model") or {}
    msg = cx.get("msg", "")
    if confirm is not None:
        alt = confirm(w, rel, hname, arg, model, msg)
        if alt is not None:
            return finish_triage(w, report, prop, family, c, rel, hname, arg, cx, alt, False)
    hang = msg.startswith("step limit")
    nat = native_run(w, rel, hname, arg, model, timeout=8 if hang else 120)
    return finish_triage(w, report, prop, family, c, rel, hname, arg, cx, nat, hang)


def finish_triage(w, report, prop, family, c, rel, hname, arg, cx, nat, hang):
    model = cx.get("model") or {}
    msg = cx.get("msg", "")
    doc = {"property": prop, "family": family, "case": c.id if c else rel, "tags": c.tags if c else [], "harness": hname, "arg": arg,
           "model": model, "input": model_bytes(model), "msg": msg, "peg": c.peg if c else "",
           "variants": [[r, f] for r, _, f in (c.variants if c else [])], "native": {k: nat[k] for k in ("fails", "panic", "timeout", "notes")}}
    reproduced = bool(nat["fails"]) or (nat["panic"] is not None and msg.startswith("uncaught")) or nat["timeout"]
    if "re-entered" in msg and nat["panic"] and "stack overflow" in nat["panic"]:
        reproduced = True  # the native symptom of unbounded recursion
    if hang and not nat["timeout"] and not nat["fails"]:
        # the native run terminates: the engine's step limit was simply too small for this path
        report.inconclusive.append("%s %s n=%d: engine step limit hit but the native run terminates (model %s)" % (rel, hname, arg, model))
        return
    if not reproduced:
        report.unconfirmed.append("%s %s n=%d: engine counterexample '%s' model=%s did not reproduce natively (%s)" % (
            rel, hname, arg, msg, model, nat["raw"][-300:].replace("\n", " | ")))
        return
    k = match_known(prop, doc)
    if k is not None:
        line = "%s: %s [case %s, input %s]" % (k["id"], k["what"], doc["case"], bytes(doc["input"]))
        short = "%s %s" % (k["id"], k["what"])
        if short not in report.known:
            report.known.append(short)
        report.cov.setdefault("known_finding_witnesses", []).append(line)
        return
    path = save_replay(prop, doc)
    report.violation(path, "%s %s n=%d: %s; input=%r native=%s" % (rel, hname, arg, msg, bytes(doc["input"]), nat["fails"] or nat["panic"]))

#!/bin/bash
# usage: seedtest.sh <seed id> <scratch worktree with the uncommitted change> <check ids...>
# Confirms the seeded change (builds, suite passes, demo fails with / passes without),
# stores it under /verif/seeded/<id>/ and runs the given checks against the changed tree.
set -u
ID=$1; WT=$2; shift 2
export GOFLAGS=-mod=mod GOPROXY=off
OUT=/verif/seeded/$ID
mkdir -p $OUT
cd $WT || exit 3
git diff -- . ':!demo_seed' ':!SEEDED.md' > $OUT/patch.diff
echo "== patch: $(wc -l < $OUT/patch.diff) lines, files: $(git diff --stat -- . ':!demo_seed' | tail -1)"
go build ./... || { echo "BUILD FAILS"; exit 1; }
if go test -vet=off -count=1 ./... > $OUT/suite.log 2>&1; then echo "== suite passes with the change"; else echo "== SUITE FAILS with the change"; grep -v "^ok\|no test files" $OUT/suite.log | head; fi
if [ -x demo_seed/run.sh ]; then
  ./demo_seed/run.sh > $OUT/demo_with.log 2>&1; W=$?
  # (git stash is shared by all worktrees of a repository: use the patch instead)
  git apply -R $OUT/patch.diff
  ./demo_seed/run.sh > $OUT/demo_without.log 2>&1; WO=$?
  git apply $OUT/patch.diff
  echo "== demo exit with change: $W, without: $WO"
fi
rm -rf $OUT/demo; mkdir -p $OUT/demo
[ -d demo_seed ] && rsync -a --exclude pigeon --exclude '*.test' --exclude 'parser.go' --exclude 'out_*' demo_seed/ $OUT/demo/ 
[ -f SEEDED.md ] && cp SEEDED.md $OUT/SEEDED.md
cd ${VERIF_RUN_DIR:-/verif}
for c in "$@"; do
  s=$(date +%s)
  VERIF_REPO=$WT ./check $c --tier quick > $OUT/check_$c.log 2>&1; rc=$?
  echo "== check $c on the changed tree: exit $rc ($(( $(date +%s)-s ))s) $(grep -c '^VIOLATION' $OUT/check_$c.log) VIOLATION lines"
  grep "^VIOLATION" $OUT/check_$c.log | head -2
done
rm -rf ${VERIF_RUN_DIR:-/verif}/replays

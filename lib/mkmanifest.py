#!/usr/bin/env python3
"""Regenerates /verif/MANIFEST.json from the table below (kept valid at all times)."""
import json, os

HERE = os.path.dirname(os.path.dirname(os.path.abspath(__file__)))

TECH = "bounded symbolic execution of go/ssa + SMT (z3); "

CHECKS = {
    "C01": ("model_checking",
            "Real generated parser vs. reference PEG interpreter on one symbolic input; per path the solver proves equal success and value for all inputs within the byte bound and alphabet.",
            "Bounded: catalogue grammars (pair-core + composites, several flag sets) and a seeded random sample of well-formed grammars (24 quick / 300 thorough), input <= 4 (quick) / 5 (thorough) bytes; random class merges and random classes against the reference membership at 2 / 3 bytes; per-kind lemmas (each real parse<Kind> function from an arbitrary valid pre-state with real children of chosen behaviour) at 1 / 2 bytes; trusted: refpeg oracle, engine semantics (sampled paths cross-validated natively), z3. The induction from the lemmas to all grammars is a paper argument.",
            TECH + "whole-parse equivalence against a reference interpreter", "§3 C01"),
    "C02": ("model_checking",
            "Trace of every code-block invocation (text, pos, labels) of the real parser equals the reference trace on every path; value built from them equal.",
            "Bounded: label/context catalogue + composites + random sample (16 / 150), input <= 4 / 5; lemmas Action and Label; known finding F8 (predicate/state blocks see stale text/pos) is re-confirmed and reported as KNOWN-FINDING.",
            TECH + "trace equivalence against a reference interpreter", "§3 C02"),
    "C05": ("model_checking",
            "Every store value observed by any block equals the functional reference store (copy on entry, restore on failure, discard after predicates/actions); globalStore never reverted.",
            "Bounded: state catalogue (plain and Cloner values, #{} at every position, keys absent at start) + random state grammars (16 / 200), standard and -optimize-parser parsers, input <= 4 / 5; lemmas Seq Choice And Not Action Star Opt on both template instances.",
            TECH + "trace equivalence against a functional-store reference", "§3 C05"),
    "C06": ("translation_validation",
            "One real parser under default options vs. the same parser under symbolic Memoize/Debug/Statistics: equal value and error presence on every path; ExprCnt <= |exprs|*(n+1) under Memoize.",
            "Bounded: pure-block catalogue + memo catalogue + random sample (12 / 150) + left-recursive parsers (results only), input <= 3 / 4; engine monitor: under Memoize no (expression, offset) is evaluated twice; Debug output formatting stubbed. Known finding F14 (a label is lost on a memo hit) re-confirmed.",
            TECH + "relational check over symbolic options", "§3 C06"),
    "C07": ("model_checking",
            "(a) the real left-recursion analysis (PrepareGrammar .. findLeader, ast NullableVisit/IsNullable/InitialNames) against a syntactic reference over a lazily completed family of grammars; (b) generated parsers of accepted grammars under an engine monitor: no rule is re-entered at an offset where it is already active, for all inputs within the bound.",
            "(a) is lazy case enumeration inside the engine (slot choices are nondeterministic, the solver is idle) - stated as such; family: 2 rules x 2 slots x menu of 32 + fixed nullable rule. (b) input <= 2 / 3 bytes, solver-decided. Every completed family grammar is also handed to the real BuildParser with default options (rejected iff cyclic). Findings F3, F12 were fixed in /repo; F15/F15b (cycle through a later alternative behind a nullable, fallible alternative) are known findings.",
            TECH + "lazy family enumeration for the analysis; symbolic inputs under a re-entry monitor at run time", "§3 C07"),
    "C08": ("model_checking",
            "Left-recursive catalogue grammars: real parser (Memoize symbolic; also -optimize-parser) vs. the iterative definition in the reference: acceptance, left-nested value and errors equal on every path.",
            "Bounded: 8 LR grammars (direct, two alternatives, expr/term nesting, under predicate/repetition, postfix, indirect x2, with state), input <= 5 / 7.",
            TECH + "equivalence against the iterative definition", "§3 C08"),
    "C09": ("translation_validation",
            "Two real parsers per grammar (with/without -optimize-grammar) on one symbolic input and every entrypoint: same acceptance, same action trace (structure-normalised), same flattened result.",
            "Bounded: optimisation-trigger catalogue + composites + context + throw catalogues + pair-core sample + random sample (24 / 250, with throw/recover), input <= 4 / 5. Findings F10, F11, F17 were fixed in /repo.",
            TECH + "relational, two real parsers", "§3 C09"),
    "C10": ("translation_validation",
            "Pairs (X, X + -optimize-parser) of real parsers on one symbolic input: equal value, error text and code-block trace on every path.",
            "Bounded: pair-core, state, throw/recover, failure, context and LR catalogues; X in {none, basic-latin, optimize-grammar, left-recursion}; random sample (24 / 250, state + throw); input <= 3 / 4.",
            TECH + "relational, two real parsers", "§3 C10"),
    "C11": ("model_checking",
            "Symbolic fault plan (per block invocation: none/errA/errB/panic) and symbolic Recover: error list text, element types, Inner identity, value-with-errors and panic containment equal the reference contract on every path.",
            "Bounded: fault catalogue, first two invocations per block slot symbolic, input <= 3 / 4.",
            TECH + "symbolic fault schedule against a reference", "§3 C11"),
    "C12": ("model_checking",
            "For every non-matching input class the single returned error equals the reference's farthest-failure position and sorted expected set.",
            "Bounded: failure catalogue (incl. choices of > 20 terminals) + pair-core sample + random sample (24 / 200) + left-recursive parsers (catalogue + random), input <= 4 / 6; one-step lemmas of the farthest-failure bookkeeping from an arbitrary pre-state (terminals, & and ! over a terminal) at 2 / 3 bytes; the ambiguous line/col of offset 0 of an input starting with a newline is outside the oracle.",
            TECH + "error-message equivalence against a reference", "§3 C12"),
    "C14": ("model_checking",
            "Throw/recover catalogue: acceptance, value and number of block invocations equal the labelled-failure reference (dynamic handler stack) on every path.",
            "Bounded: throw catalogue + random throw/recover grammars (16 / 200) x {standard, -optimize-parser}, input <= 4 / 6; lemmas Recovery, RecoveryTwice, Throw.",
            TECH + "equivalence against a reference with an explicit handler stack", "§3 C14"),
    "C15": ("model_checking",
            "Two real parsers per class grammar (with / without -optimize-basic-latin) on unconstrained symbolic bytes: equal value and error on every path.",
            "Bounded: 101 classes (range ends at U+007F/U+0080 included; chars/ranges/Unicode classes x ^ x i, case boundaries, Kelvin, long s, dotted I), input <= 2 / 3 unconstrained bytes; also the pair (-optimize-grammar, -optimize-grammar + -optimize-basic-latin) on random class merges and shared-class grammars; 40 / 400 random classes. Finding F2 was fixed in /repo.",
            TECH + "relational, two real parsers", "§3 C15"),
    "C16": ("model_checking",
            "Symbolic budget n and symbolic Memoize: ExprCnt <= n+1, budget error iff exhausted, unexhausted run equals the unbounded run; non-terminating grammars must end by the budget (engine step limit -> native replay under a timeout).",
            "Bounded: 8 grammars (4 with repetitions that iterate without consuming), n in [1,24] (12 for the non-terminating grammars) or [2^31, 2^64-1], input <= 2 / 3. Known finding F6 (Memoize defeats the budget) re-confirmed natively as a hang.",
            TECH + "symbolic budget; hang confirmation by native replay", "§3 C16"),
    "C17": ("model_checking",
            "All byte strings up to the bound, AllowInvalidUTF8 symbolic: value, success and the complete error list equal the reference with an independent RFC 3629 classifier.",
            "Bounded: 9 grammars, input <= 3 / 4 unconstrained bytes. Known finding F5 (literal with U+FFFD matches at end of input) re-confirmed.",
            TECH + "equivalence against a reference with an RFC 3629 classifier", "§3 C17"),
}

CHECKS["C19"] = ("model_checking",
    "The real generation pipeline (front end, ast.Optimize, BuildParser) is executed twice on concrete catalogue grammars: once with every map ranged in insertion order and once with the iteration order of up to D dynamic range instances chosen nondeterministically; emitted bytes and acceptance must be equal on every explored order assignment.",
    "Reduced claim: orders are engine nondeterminism under a delay bound (D=1 quick, D=2 thorough), the solver does not decide anything here; template expansion and goimports are outside. Finding F1 was fixed in /repo; a counterexample is confirmed by repeated native runs of the tool.",
    "engine-level exploration of map iteration orders over the SSA of the real pipeline (delay-bounded); no SMT query decides this property", "§3 C19")

CHECKS["C13"] = ("model_checking",
    "The stages of main() below flag/file handling (generated front end on the grammar text, ast.Optimize, builder.BuildParser) are executed symbolically: (i) the whole grammar text symbolic, (ii) a symbolic byte substituted at positions of catalogue grammars; generation flags symbolic. On every path no Go panic leaves the pipeline and the outcome is a diagnostic or a complete buffer; sampled paths are re-run through the real binary (exit status, no panic trace).",
    "Bounded: whole text <= 3 (quick) / 4 (thorough) unconstrained bytes; 1-byte mutations at a stride (quick) / every position (thorough) of 5 / 9 grammars. Flag parsing, file I/O, template expansion and goimports are outside. Completeness of the emitted text (every code-block method referred to is defined) is asserted on accepted grammars. Findings F7a, F7b, F16 were fixed in /repo; F18 (time exponential in the depth of a reference chain) is a known finding, re-confirmed by Harness_C13chain.",
    TECH + "symbolic grammar text through the real front end, optimizer and builder", "§3 C13")

CHECKS["C03"] = ("model_checking",
    "The real generated front end (pigeon.go with all its actions) is executed by the engine: (1) round trip - every catalogue AST printed in four layouts parses back to exactly that AST including the position of every node; (2) holes with symbolic bytes in concrete skeletons - layout and comments between tokens, escape bodies in both quotings against a reference decoder, class bodies against a reference for the documented notation, prefix/suffix operators against the binding-strength table, identifiers: the solver proves acceptance and AST equality for all hole contents within the stated validity assumption.",
    "Bounded: holes of <= 2 (quick) / 3 (thorough) layout bytes, comment bodies of 2 bytes, escapes of length 1,3,5 (9 thorough), class bodies <= 3 / 4 printable ASCII bytes, identifiers <= 2 / 3 ASCII chars; code-block holes (<= 3 / 4 symbolic bytes inside strings, raw strings, rune literals, comments, nested braces); escapes also inside classes; only 'valid text => accepted with the denoted AST' is asserted (nothing about invalid text). Expected ASTs come from the catalogue printer.",
    TECH + "symbolic holes in grammar skeletons through the real front end; concrete round trip", "§3 C03")

CHECKS["C20"] = ("translation_validation",
    "(a) the hand-written bootstrap front end and the generated pigeon front end are executed on the same symbolic text (catalogue texts of the bootstrap subset; symbolic layout, escape, class-body and operator holes): on every path where the bootstrap accepts, pigeon accepts and the two ASTs are structurally equal (positions and display-name quoting aside). (b) every generated artifact with a Makefile rule is regenerated with tools built from the current tree and byte-compared; pigeon -nolint grammar/pigeon.peg must equal pigeon.go (fixpoint).",
    "(b) is a concrete regeneration diff with no symbolic variable - not a solver verdict, labelled as such; it is also the precondition of every other check (the engine executes what generated_static_code.go says). (a) bounded as C03's holes, plus free holes: <= 2 / 3 symbolic bytes from the 27 characters significant to either front end at six places (3 / 4 inside comments). A panic of the bootstrap front end counts as 'not in the subset'.",
    TECH + "relational, two real front ends; plus a concrete regeneration diff", "§3 C20")

CHECKS["C18"] = ("other",
    "Ownership discipline decided by the solver for all pairs of inputs within the bound: during Parse nothing reachable from package-level variables is written, pooled maps are empty when Put and untouched afterwards, Pool.Get may return any pooled map, and a Parse returns the same value, errors and block trace whatever Parse ran before it. Together with the linearizability of sync.Pool this implies schedule independence and race freedom by a paper argument.",
    "Reduced claim: goroutine interleavings are not encoded (DESIGN.md §5); bounded: input <= 1 / 2 bytes per call, pool deviation <= 1; three families: three sequential calls under the ownership monitor; the middle call aborted by a symbolic expression budget; Parse(b) after Parse(a) against Parse(b) after symFreshProcess (statistics compared, native confirmation in two processes); sync.Map modelled; state/composite/throw/LR catalogue, standard and -optimize-parser.",
    TECH + "ownership monitor over all paths of three sequential Parse calls with a nondeterministic pool; schedules by argument", "§3 C18")
CHECKS["C04"] = ("other",
    "Reduced claim: 'compiles and vets' is the Go type checker's verdict over emitted text and has no SMT encoding. Solver-decided kernel: the generated method names are injective in (rule name, expression index) - violated (known finding F4), each solver model is turned into a grammar and confirmed by go build of the real output. Concrete by-product: catalogue grammars x flag subsets (incl. one grammar with every accepted Unicode class) are generated, type-checked, vetted and initialised/run in the engine.",
    "Kernel bounds: rule names of 1..3 identifier characters, indices 1..999. The by-product is not a verdict of the technique. Known findings F4 (name collision) and F13 (label clash made by -optimize-grammar) are re-confirmed natively.",
    TECH + "kernel: symbolic rule names and indices through the real funcName; rest: concrete build/vet by-product", "§3 C04, §5")

# additions of later rounds (appended to the notes above)
EXTRA = {
    "C05": "Lemma store holds a plain value and a value implementing Cloner that blocks change in place; lemmas AndCode, NotCode, StateCode (block boolean decides, nothing consumed, error recorded once, store changes gone after predicate blocks and kept after state blocks). Left-recursive parsers (state blocks in the base - also an empty one -, before and after the operand, in a helper rule) under lr and lropt; known finding F21 (a leader's memo entry answers a second evaluation of the rule without running its state blocks).",
    "C02": "Lemmas AndCode, NotCode, StateCode added.",
    "C06": "One-step lemma Memo: two evaluations of an expression at one position agree (value, outcome, end) and Memoize(true) does not evaluate twice. The Statistics collector starts at 0 or 5.",
    "C07": "(a) asserts only about the grammar rebuilt from real ast nodes (PrepareGrammar and BuildParser); the run over lazy slots only decides which slots matter and may panic on or ignore the harness type without raising an alarm. Menu of 47 (handlers whose recovery expression is a rule, a reference to the throwing rule); the reference follows throw -> handler edges across rules; known finding F20 (cycle through a throw recovered by a handler of another rule not detected). c_rrfffd under the re-entry monitor.",
    "C08": "Random LR grammars include recursion through helper rules whose names sort before or after the leader (direct and indirect alternatives mixed). State blocks in left-recursive rules (state_lr_catalogue).",
    "C09": "Random class merges include rules that are choices over an earlier leaf rule, referenced next to that leaf. og_notany* (negative predicate over a one-character matcher followed by the any matcher), og_diamond, og_lblclash2 (known-if-not-type-checking:F13).",
    "C11": "Left-recursive grammars with failing blocks (three symbolic invocations per block); AddErr lemma also from a list in which the same error was recorded and rolled back. AddErr lemma draws the inner error among a plain error, an errList value and a wrapped errList (errors.As is an engine intrinsic).",
    "C13": "Harness_C13main: the real main() (package flag interpreted; input, output and imports.Process stubbed; exit mocked) on 6 grammars x 8 concrete (-optimize-grammar, -support-left-recursion, -x) triples with the other flags, the alternate entry points and one appended byte symbolic; oracle = stage results of the replayed pipeline; natively replayed on real files with the real goimports. The static-code template expansion is executed (native regexp/text/template intrinsics) in the main() harness. Known finding F19 (-no-recover exposes a panic of the front end's own action on an unterminated code block). The grammar arrives on a virtual standard input (input(), bufio, io.ReadAll interpreted); Harness_C13maintext: whole text of <= 2 / 3 symbolic bytes through the real main().",
    "C14": "Lemma RecoveryNested (a throw inside the running recovery expression is handled by the handler that is still in force); grammars tr_resume, tr_resume2.",
    "C15": "Seeded grammars with 2-4 classes each that share Unicode class names, characters and ranges and differ in ^ and i (24 / 100); thorough: 150 random classes and 80 class merges (the first thorough run of this session did not finish the larger sample within an hour). Kernel Harness_C15kernel: every Unicode class name the front end accepts (200) x i, BasicLatinLookup against package unicode on a symbolic rune below 128.",
    "C16": "Second harness: the Stats collector handed to Statistics already counts 0..40 expressions (symbolic), budget 1..16, option order symbolic.",
    "C18": "Option values are built once and handed to every call; fourth family: the three calls through ParseReader, the first value compared with a deep copy taken when it was returned. Fifth family C18opts: the middle call sets every runtime option to its non-default value, the third call (default options) must equal the first. c_longclass (a class listing 11 characters) under the ownership monitor.",
    "C19": "The static-code template expansion is executed in the engine (native regexp/text/template intrinsics), so the compared output is the complete file before goimports. Harness_C19seq: X built after Y in one process equals X built in a fresh process (symFreshProcess; two native processes confirm). opt_diamond (diamond of rule references) among the grammars.",
    "C01": "Lit lemma over literals with the two-byte rune last, first and in both places; Class lemma with U+FFFD as a member; c_icase3, c_longclass, c_rrfffd among the composites.",
    "C03": "Harness_C03litbody: escape-free literal bodies of <= 2 / 3 symbolic bytes in all three quotings (raw literals discard carriage returns).",
    "C10": "c_icase3 (one case-insensitive literal in three spellings); differently spelled i-literals among the random terminals.",
    "C20": "CRLF variants of the round-trip texts; free holes also inside a code block and inside a raw string (alphabet with CR and back quote). Free holes directly behind a literal and behind a class.",
}

# rounds 10 and 11 (DESIGN.md 8.17, 8.18)
EXTRA2 = {
    "C03": "Harness_C03term: the rule / initializer terminator as a hole (<= 2 / 3 symbolic layout bytes before a semicolon or an end of line).",
    "C04": "Witness loop over the known duplicate-declaration shapes (F13, F22 duplicate rule with blocks, F23 duplicate label in a scope), each re-confirmed with go build; tr_duplist, tr_lblshadow in the type-checked set.",
    "C06": "A double evaluation reported by the expronce monitor is confirmed natively on an instrumented scratch copy of the generated parser (one inserted line in parseExpr), since it changes no result.",
    "C07": "(b) also on grammars that define a rule twice, one definition left-recursive (cy_dupfirst, cy_duplast, cy_dupstart).",
    "C10": "tr_lblshadow, tr_lblshadow2: a labelled recovery operator whose operands bind a label with the name of an earlier label of the enclosing sequence.",
    "C13": "Mutation family also on two grammars with two left-recursive groups, one reachable from the other at its first position.",
    "C14": "tr_escalate, tr_lblshadow*, tr_duplist (a failure label listed twice).",
    "C16": "Parsers generated with -optimize-parser (no Statistics, no Memoize): budget error <=> the reference interpreter evaluates more than budget expressions; half of the budget catalogue (quick) / all of it (thorough) and one left-recursive grammar.",
    "C18": "Sixth family C18sharedopts: one option list (all options but Statistics) shared by three calls, everything reachable from it under the ownership monitor (symShare); native confirmation under the race detector with the list shared by all goroutines.",
    "C19": "dup_labels (a label bound twice in one scope), dup_faillabels (a failure label listed twice).",
    "C05": "stlr_prefix (state blocks between two evaluations of a leader at one offset).",
    "C09": "og_sharps1/2 (caseless literals, among them sharp s, next to i-literals).",
    "C02": "Label lemma from scope stacks of depth 0, 255 and 256 and with labels under recovery operators; literal position lemma.",
}
# round 12 (DESIGN.md 8.19, 8.20)
EXTRA3 = {
    "C09": "og_entry_twice/thrice/first (alternate entry points that are leaves referenced several times). Rotation: every subset X of the other generation flags on a third of the optimizer catalogue and composites, (X, X + -optimize-grammar).",
    "C10": "Rotation: every subset X of {-optimize-basic-latin, -optimize-grammar, -support-left-recursion} over classes, composites and throw grammars, (X, X + -optimize-parser).",
    "C15": "Case-insensitive classes also as (-optimize-parser, -optimize-parser -optimize-basic-latin); rotation of the other flag subsets over the class catalogue.",
    "C17": "u8_lit2, u8_lit2i, u8_lit2pred (literals of several characters with something behind them); one of the flag sets opt, bl, all, lr per catalogue grammar in addition to std.",
    "C11": "One of the flag sets opt, bl, all per fault grammar in addition to std.",
    "C12": "Quick tier: the failure catalogue also under -optimize-parser.",
    "C05": "st_throw_2fail, st_throw_2fail_st, st_throw_1fail (throws directly under ? / * with failing recovery expressions and state blocks).",
    "C20": "Harness_C20term: the rule terminator as a hole for both front ends.",
}
for _k, _v in EXTRA3.items():
    EXTRA2[_k] = (EXTRA2.get(_k, "") + " " + _v).strip()
for _k, _v in EXTRA2.items():
    EXTRA[_k] = (EXTRA.get(_k, "") + " " + _v).strip()

NOT_BUILT = {
}

NA = {
}


def main():
    checks = []
    for pid in sorted(CHECKS):
        cat, text, note, tech, ref = CHECKS[pid]
        checks.append({
            "property_id": pid,
            "quick_cmd": "./check %s --tier quick" % pid,
            "thorough_cmd": "./check %s --tier thorough" % pid,
            "evidence_file": "evidence/%s.json" % pid,
            "replay_cmd_template": "./check replay {path}",
            "engine": "gosym",
            "level_claimed": {"category": cat, "text": text, "design_ref": "DESIGN.md " + ref},
            "level_note": (note + " " + EXTRA.get(pid, "")).strip(),
            "technique": tech,
        })
    m = {
        "version": 1,
        "setup_cmd": "./check setup && ./check selftest",
        "hooks": {
            "guard": "verif",
            "enable": "no source hooks: harnesses live in scratch modules next to the generated parsers and, for in-repo packages, are injected with go/packages overlays and `go test -overlay`",
            "baseline_off_cmd": "cd /repo && go test -mod=mod -vet=off -count=1 ./...",
            "source_commits": [],
            "add_only": True,
        },
        "engines": [{
            "name": "gosym", "path": "engine/", "serves_properties": sorted(CHECKS),
            "kind_free_text": "bounded symbolic execution of go/ssa (derived from x/tools ssa/interp) with an SMT solver over a pipe (z3 5.1 primary, z3 4.8.12 / cvc5 for diffing); decision-prefix replay; every counterexample replayed natively against the real build before it is reported",
        }],
        "checks": checks,
        "not_applicable": [{"property_id": k, "reason": v} for k, v in sorted(NA.items()) if k not in CHECKS],
        "notes": "Exit codes of ./check: 0 held within bounds (known findings re-confirmed and printed), 1 VIOLATION (natively reproduced, not listed in known_findings.json), 2 inconclusive (budget/unsupported construct/unconfirmed model) - never on the unchanged tree for the registered bounds.",
    }
    with open(os.path.join(HERE, "MANIFEST.json"), "w") as f:
        json.dump(m, f, indent=1)
    print("MANIFEST.json written:", len(checks), "checks,", len(m["not_applicable"]), "not applicable")


if __name__ == "__main__":
    main()

#!/bin/bash
# usage: runall.sh <tier> <seed> [ids...]  - runs the checks one after the other on /repo, prints one line per check
TIER=${1:-quick}; SEED=${2:-0}; shift 2
IDS=${@:-C01 C02 C03 C04 C05 C06 C07 C08 C09 C10 C11 C12 C13 C14 C15 C16 C17 C18 C19 C20}
cd "$(dirname "$0")/.."
mkdir -p /tmp/runall_$SEED
for c in $IDS; do
  s=$(date +%s)
  VERIF_SEED=$SEED ./check $c --tier $TIER > /tmp/runall_$SEED/$c.log 2>&1; rc=$?
  echo "$c seed=$SEED tier=$TIER exit $rc $(( $(date +%s)-s ))s viol=$(grep -c '^VIOLATION' /tmp/runall_$SEED/$c.log) known=$(grep -c '^KNOWN-FINDING' /tmp/runall_$SEED/$c.log)"
done

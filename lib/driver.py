"""Common machinery of the checks: scratch work area, building the real tool
from the current tree, generating parsers, running the gosym engine, native
replay, known findings, evidence."""
import atexit, hashlib, json, os, re, shutil, subprocess, sys, tempfile, time
from concurrent.futures import ThreadPoolExecutor

VERIF = os.path.dirname(os.path.dirname(os.path.abspath(__file__)))
REPO = os.environ.get("VERIF_REPO", "/repo")
ENGINE_GO = "/opt/veriftools/go1.26.8/bin"
NCPU = os.cpu_count() or 8

sys.path.insert(0, os.path.join(VERIF, "catalog"))


def log(*a):
    print(*a, file=sys.stderr, flush=True)


PHASES = []
_last_tick = [time.time()]


def tick(name):
    """Wall time since the previous tick, recorded per phase (reported in the evidence)."""
    now = time.time()
    PHASES.append([name, round(now - _last_tick[0], 1)])
    _last_tick[0] = now


def base_env():
    env = dict(os.environ)
    env["GOFLAGS"] = "-mod=mod"
    env["GOPROXY"] = "off"
    env.pop("GOSUMDB", None)
    env.setdefault("GOTOOLCHAIN", "auto")
    if env["GOTOOLCHAIN"] == "local":
        env["GOTOOLCHAIN"] = "auto"
    return env


def engine_env():
    env = dict(os.environ)
    env["PATH"] = ENGINE_GO + ":" + env.get("PATH", "")
    env["GOFLAGS"] = "-mod=mod"
    env["GOPROXY"] = "off"
    env["GOSUMDB"] = "off"
    env["GOTOOLCHAIN"] = "local"
    return env


class Work:
    """Scratch directory outside /repo and /verif, removed on exit."""

    def __init__(self):
        self.dir = tempfile.mkdtemp(prefix="vf_")
        atexit.register(self.cleanup)
        self.mod = os.path.join(self.dir, "h")
        os.makedirs(self.mod)
        with open(os.path.join(self.mod, "go.mod"), "w") as f:
            f.write("module vh\n\ngo 1.23\n")
        shutil.copytree(os.path.join(VERIF, "ref"), os.path.join(self.mod, "ref"))
        self.pigeon = None
        self.t0 = time.time()

    def cleanup(self):
        if os.environ.get("VERIF_KEEP"):
            log("keeping", self.dir)
            return
        shutil.rmtree(self.dir, ignore_errors=True)

    def build_pigeon(self):
        out = os.path.join(self.dir, "pigeon")
        r = subprocess.run(["go", "build", "-o", out, "."], cwd=REPO, env=base_env(),
                           capture_output=True, text=True)
        if r.returncode != 0:
            raise Inconclusive("pigeon does not build from %s:\n%s" % (REPO, r.stderr[-2000:]))
        self.pigeon = out
        return out


class Inconclusive(Exception):
    pass


def ensure_engine():
    """Build the engine binary if missing or stale."""
    if os.environ.get("VERIF_ENGINE_BIN"):
        return os.environ["VERIF_ENGINE_BIN"]  # development aid: an engine built elsewhere
    binp = os.path.join(VERIF, "engine", "bin", "gosym")
    src_dir = os.path.join(VERIF, "engine")
    newest = 0
    for root, _, files in os.walk(src_dir):
        if "/bin" in root:
            continue
        for fn in files:
            if fn.endswith(".go") or fn in ("go.mod", "go.sum"):
                newest = max(newest, os.path.getmtime(os.path.join(root, fn)))
    if os.path.exists(binp) and os.path.getmtime(binp) >= newest:
        return binp
    os.makedirs(os.path.dirname(binp), exist_ok=True)
    r = subprocess.run(["go", "build", "-o", binp, "./cmd/gosym"], cwd=src_dir, env=engine_env(),
                       capture_output=True, text=True)
    if r.returncode != 0:
        raise Inconclusive("engine build failed:\n" + r.stderr[-3000:])
    return binp


def shim(pkg):
    with open(os.path.join(VERIF, "shim", "zz_sym.go.tmpl")) as f:
        return f.read().replace("PKGNAME", pkg)


REPLAY_TEST = '''package PKGNAME

import (
	"encoding/json"
	"fmt"
	"os"
	"strconv"
	"testing"
)

func symRunOne(name string, arg int) {
	defer func() {
		if p := recover(); p != nil {
			fmt.Println("PANIC:", p)
		}
	}()
	h, ok := symHarnesses[name]
	if !ok {
		fmt.Println("NO-HARNESS:", name)
		return
	}
	h(arg)
}

func TestReplay(t *testing.T) {
	n, _ := strconv.Atoi(os.Getenv("VERIF_ARG"))
	symRunOne(os.Getenv("VERIF_HARNESS"), n)
	fmt.Println("REPLAY-DONE")
}

func TestReplayBatch(t *testing.T) {
	raw, err := os.ReadFile(os.Getenv("VERIF_BATCH"))
	if err != nil {
		t.Fatal(err)
	}
	var items []struct {
		Harness string            `json:"harness"`
		Arg     int               `json:"arg"`
		Model   map[string]uint64 `json:"model"`
	}
	if err := json.Unmarshal(raw, &items); err != nil {
		t.Fatal(err)
	}
	for i, it := range items {
		fmt.Println("BEGIN", i)
		symModel = it.Model
		if symModel == nil {
			symModel = map[string]uint64{}
		}
		symFailed = nil
		symChooseCnt = map[string]int{}
		symRunOne(it.Harness, it.Arg)
		fmt.Println("END", i)
	}
}
'''


def write_pkg(w, rel, files, harness_names=None, pkg=None):
    d = os.path.join(w.mod, rel)
    os.makedirs(d, exist_ok=True)
    pkg = pkg or os.path.basename(rel)
    for name, text in files.items():
        with open(os.path.join(d, name), "w") as f:
            f.write(text)
    if harness_names is not None:
        with open(os.path.join(d, "zz_sym.go"), "w") as f:
            f.write(shim(pkg))
        reg = "package %s\n\nvar symHarnesses = map[string]func(int){\n%s}\n" % (
            pkg, "".join('\t"%s": %s,\n' % (h, h) for h in harness_names))
        with open(os.path.join(d, "zz_reg.go"), "w") as f:
            f.write(reg)
        with open(os.path.join(d, "zz_replay_test.go"), "w") as f:
            f.write(REPLAY_TEST.replace("PKGNAME", pkg))
    return d


def gen_parser(w, peg_text, flags, rel, timeout=60):
    """Run the real pigeon (built from the current tree) on peg_text; output
    $mod/rel/g.go. Returns (ok, stderr, exit code)."""
    d = os.path.join(w.mod, rel)
    os.makedirs(d, exist_ok=True)
    src = os.path.join(d, "g.peg")
    with open(src, "w") as f:
        f.write(peg_text)
    try:
        r = subprocess.run([w.pigeon] + list(flags) + ["-o", os.path.join(d, "g.go"), src], cwd=d,
                           env=base_env(), capture_output=True, text=True, timeout=timeout)
    except subprocess.TimeoutExpired:
        return False, "pigeon timed out", -1
    return r.returncode == 0, r.stderr, r.returncode


def run_engine(w, pkgs="./...", harness="", nmin=0, nmax=0, timeout_s=0, max_paths=0, jobs=NCPU,
               max_steps=2_000_000, sample_every=0, solver="z3-new", wall_limit=None, under=None, dir=None,
               overlay=None, solver_ms=30000, args=None):
    binp = ensure_engine()
    out = os.path.join(w.dir, "engine-%d.json" % int(time.time() * 1000))
    cmd = [binp, "-dir", dir or w.mod, "-pkgs", pkgs, "-harness", harness, "-nmin", str(nmin), "-nmax", str(nmax),
           "-j", str(jobs), "-max-steps", str(max_steps), "-out", out, "-solver", solver,
           "-solver-ms", str(solver_ms)]
    if timeout_s:
        cmd += ["-timeout", "%ds" % timeout_s]
    if max_paths:
        cmd += ["-max-paths", str(max_paths)]
    if sample_every:
        cmd += ["-sample-every", str(sample_every)]
    if under:
        cmd += ["-under-test", under]
    if overlay:
        cmd += ["-overlay", overlay]
    if args is not None:
        cmd += ["-args", ",".join(str(a) for a in args)]
    try:
        r = subprocess.run(cmd, env=engine_env(), capture_output=True, text=True, errors="replace", timeout=wall_limit)
    except subprocess.TimeoutExpired:
        raise Inconclusive("engine exceeded wall limit %ss" % wall_limit)
    if not os.path.exists(out):
        raise Inconclusive("engine produced no output: " + r.stderr[-3000:])
    with open(out) as f:
        res = json.load(f)
    res["exit"] = r.returncode
    res["stderr"] = r.stderr[-4000:]
    return res


def test_binary(w, rel):
    """Compile the harness package's test binary once; it is then run (and, if
    it hangs, killed) directly."""
    cache = w.__dict__.setdefault("testbins", {})
    if rel in cache:
        return cache[rel]
    out = os.path.join(w.dir, "tb", hashlib.sha1(rel.encode()).hexdigest()[:12] + ".test")
    os.makedirs(os.path.dirname(out), exist_ok=True)
    r = subprocess.run(["go", "test", "-vet=off", "-c", "-o", out, "./" + rel], cwd=w.mod, env=base_env(),
                       capture_output=True, text=True, errors="replace")
    if r.returncode != 0 or not os.path.exists(out):
        cache[rel] = None
        log("native build failed for", rel, r.stderr[-800:])
        return None
    cache[rel] = out
    return out


def native_run(w, rel, harness, arg, model, timeout=120):
    """Run one harness natively (go test in the scratch module) with the model.
    Returns dict(fails=[..], reach=[..], notes=[..], panic=str|None, done=bool, timeout=bool)."""
    mp = os.path.join(w.dir, "model-%s.json" % hashlib.sha1(json.dumps([rel, harness, arg, model], sort_keys=True).encode()).hexdigest()[:12])
    with open(mp, "w") as f:
        json.dump({"model": model}, f)
    env = base_env()
    env.update({"VERIF_REPLAY": mp, "VERIF_HARNESS": harness, "VERIF_ARG": str(arg)})
    tb = test_binary(w, rel)
    if tb is None:
        res = parse_native("")
        res["raw"] = "native test binary did not build"
        return res
    out, timed_out = run_group([tb, "-test.run", "TestReplay$", "-test.v", "-test.timeout", "%ds" % (timeout + 30)],
                               cwd=os.path.join(w.mod, rel), env=env, timeout=timeout)
    res = parse_native(out)
    if timed_out or "panic: test timed out" in out:
        res["timeout"] = True
        res["panic"] = None
    return res


def run_group(cmd, cwd, env, timeout):
    """Run cmd in its own process group; on timeout kill the whole group (a
    hanging test binary must not survive)."""
    import signal
    p = subprocess.Popen(cmd, cwd=cwd, env=env, stdout=subprocess.PIPE, stderr=subprocess.STDOUT, start_new_session=True)
    try:
        out, _ = p.communicate(timeout=timeout)
        return out.decode("utf-8", "replace"), False
    except subprocess.TimeoutExpired:
        try:
            os.killpg(p.pid, signal.SIGKILL)
        except ProcessLookupError:
            pass
        out, _ = p.communicate()
        return out.decode("utf-8", "replace"), True


def parse_native(text):
    res = {"fails": [], "reach": [], "notes": [], "panic": None, "done": False, "timeout": False, "assume_fail": False, "raw": text[-1500:], "marks": []}
    for line in text.splitlines():
        if line.startswith("ASSERT-FAIL: "):
            res["fails"].append(line[len("ASSERT-FAIL: "):])
        elif line.startswith("REACH: "):
            res["reach"].append(line[7:])
        elif line.startswith("NOTE: "):
            res["notes"].append(line[6:])
        elif line.startswith("PANIC: "):
            res["panic"] = line[7:]
        elif line.startswith("panic: ") and res["panic"] is None:
            res["panic"] = line[7:]
        elif line.startswith("fatal error: ") and res["panic"] is None:
            res["panic"] = line
        elif line.startswith("ASSUME-FAIL"):
            res["assume_fail"] = True
        elif line.startswith("REPLAY-DONE"):
            res["done"] = True
        elif line.startswith("SYMONCE:") and len(res["marks"]) < 5:
            res["marks"].append(line)  # printed by an instrumented scratch copy of a generated parser (C06 confirmation)
    return res


def native_batch(w, rel, items, timeout=300):
    """items: list of dict(harness,arg,model). Returns list of parse_native results."""
    bp = os.path.join(w.dir, "batch-%s.json" % hashlib.sha1((rel + str(len(items)) + str(time.time())).encode()).hexdigest()[:10])
    with open(bp, "w") as f:
        json.dump(items, f)
    env = base_env()
    env["VERIF_BATCH"] = bp
    tb = test_binary(w, rel)
    if tb is None:
        return None
    out, timed_out = run_group([tb, "-test.run", "TestReplayBatch$", "-test.v"], cwd=os.path.join(w.mod, rel), env=env, timeout=timeout)
    if timed_out:
        return None
    res = []
    cur = None
    buf = []
    for line in out.splitlines():
        if line.startswith("BEGIN "):
            cur = int(line.split()[1]); buf = []
        elif line.startswith("END ") and cur is not None:
            res.append(parse_native("\n".join(buf)))
            cur = None
        elif cur is not None:
            buf.append(line)
    if len(res) != len(items):
        return None
    return res


# ------------------------------------------------------------------ known findings

def load_known():
    p = os.path.join(VERIF, "known_findings.json")
    if not os.path.exists(p):
        return []
    with open(p) as f:
        return json.load(f).get("findings", [])


def match_known(prop, cex):
    """cex: dict(property, case, tags, msg, model, harness). Returns the finding or None.
    'fixed' entries never suppress anything."""
    for k in load_known():
        if k.get("status") != "known" or k.get("property") != prop:
            continue
        m = k.get("match", {})
        if "case_re" in m and not re.search(m["case_re"], cex.get("case", "")):
            continue
        if "msg_re" in m and not re.search(m["msg_re"], cex.get("msg", "")):
            continue
        if "tag" in m and m["tag"] not in cex.get("tags", []):
            continue
        if "note_re" in m and not re.search(m["note_re"], " ".join((cex.get("native") or {}).get("notes") or [])):
            continue
        if "model_eq" in m and any((cex.get("model") or {}).get(k) != v for k, v in m["model_eq"].items()):
            continue
        if "input_re" in m and not re.search(m["input_re"], bytes(cex.get("input", [])).decode("latin-1"), re.S):
            continue
        if "peg_re" in m and not re.search(m["peg_re"], cex.get("peg", ""), re.S):
            continue
        return k
    return None


# ------------------------------------------------------------------ reporting

class Report:
    def __init__(self, prop, tier, seed, level):
        self.prop, self.tier, self.seed, self.level = prop, tier, seed, level
        self.t0 = time.time()
        self.violations = []      # confirmed, unknown
        self.known = []           # confirmed, listed
        self.unconfirmed = []
        self.inconclusive = []
        self.cov = {}
        self.assumptions = []
        self.samples = []

    def violation(self, replay_path, what):
        self.violations.append((replay_path, what))

    def finish(self):
        ev = {
            "property_id": self.prop, "tier": self.tier, "seed": self.seed, "level": self.level,
            "coverage": dict(self.cov, phase_wall_s=[list(p) for p in PHASES]), "assumptions": self.assumptions,
            "wall_s": round(time.time() - self.t0, 2), "violations": len(self.violations),
        }
        ev["coverage"]["samples"] = self.samples[:12] or ["(none)"]
        ev["coverage"]["known_findings_reconfirmed"] = [k for k in self.known]
        ev["coverage"]["unconfirmed_models"] = len(self.unconfirmed)
        ev["coverage"]["inconclusive"] = self.inconclusive[:20]
        # development aids: a run on a patched tree (VERIF_REPO) or on a subset of the cases (VERIF_ONLY) never
        # overwrites the evidence of the registered check
        evdir = os.environ.get("VERIF_EVIDENCE_DIR") or os.path.join(VERIF, "evidence")
        if os.environ.get("VERIF_ONLY") or (REPO != "/repo" and not os.environ.get("VERIF_EVIDENCE_DIR")):
            evdir = os.path.join(tempfile.gettempdir(), "verif-dev-evidence")
        os.makedirs(evdir, exist_ok=True)
        with open(os.path.join(evdir, self.prop + ".json"), "w") as f:
            json.dump(ev, f, indent=1, sort_keys=True)
        for k in self.known:
            print("KNOWN-FINDING: property=%s %s" % (self.prop, k))
        for path, what in self.violations:
            print("VIOLATION property=%s replay=%s" % (self.prop, path))
            log("  ", what)
        if self.violations:
            return 1
        if self.inconclusive or self.unconfirmed:
            for m in self.inconclusive[:10]:
                log("INCONCLUSIVE:", m)
            for m in self.unconfirmed[:10]:
                log("UNCONFIRMED:", m)
            return 2
        return 0


def save_replay(prop, doc):
    d = os.path.join(VERIF, "replays", prop)
    os.makedirs(d, exist_ok=True)
    h = hashlib.sha1(json.dumps(doc, sort_keys=True).encode()).hexdigest()[:12]
    p = os.path.join(d, "%s-%s.json" % (re.sub(r"[^A-Za-z0-9_.+-]", "_", str(doc.get("case", "case")))[:80], h))
    with open(p, "w") as f:
        json.dump(doc, f, indent=1, sort_keys=True)
    return p


def pmap(fn, items, workers=NCPU):
    with ThreadPoolExecutor(max_workers=workers) as ex:
        return list(ex.map(fn, items))


# ------------------------------------------------------------------ harnesses inside /repo packages (overlays)

class RepoOverlay:
    """A harness injected into a package of /repo through overlays: the engine
    loads it with packages.Config.Overlay, native replays use `go test -overlay`.
    Nothing is written to /repo."""

    def __init__(self, w, pkg_rel, pkg_name, files, harness_names):
        self.w, self.pkg_rel, self.pkg_name = w, pkg_rel, pkg_name
        self.dir = os.path.join(w.dir, "ov_" + pkg_rel.replace("/", "_").replace(".", "root"))
        os.makedirs(self.dir, exist_ok=True)
        allf = dict(files)
        allf["zz_sym.go"] = shim(pkg_name)
        allf["zz_reg.go"] = "package %s\n\nvar symHarnesses = map[string]func(int){\n%s}\n" % (
            pkg_name, "".join('\t"%s": %s,\n' % (h, h) for h in harness_names))
        allf["zz_replay_test.go"] = REPLAY_TEST.replace("PKGNAME", pkg_name)
        self.map = {}
        for name, text in allf.items():
            real = os.path.join(self.dir, name)
            with open(real, "w") as f:
                f.write(text)
            self.map[os.path.normpath(os.path.join(REPO, pkg_rel, name))] = real
        self.engine_overlay = os.path.join(self.dir, "engine_overlay.json")
        with open(self.engine_overlay, "w") as f:
            json.dump({k: v for k, v in self.map.items() if not k.endswith("_test.go")}, f)
        self.go_overlay = os.path.join(self.dir, "go_overlay.json")
        with open(self.go_overlay, "w") as f:
            json.dump({"Replace": self.map}, f)
        self.testbin = None

    def engine(self, harness="", nmin=0, nmax=0, **kw):
        return run_engine(self.w, pkgs="./" + self.pkg_rel if self.pkg_rel != "." else ".", harness=harness, nmin=nmin, nmax=nmax,
                          dir=REPO, overlay=self.engine_overlay, under="github.com/mna/pigeon", **kw)

    def build_test(self):
        if self.testbin is not None:
            return self.testbin or None
        out = os.path.join(self.dir, "pkg.test")
        r = subprocess.run(["go", "test", "-vet=off", "-c", "-overlay", self.go_overlay, "-o", out, "./" + self.pkg_rel], cwd=REPO,
                           env=base_env(), capture_output=True, text=True, errors="replace")
        if r.returncode != 0 or not os.path.exists(out):
            log("native build of overlay harness failed:", r.stderr[-1500:])
            self.testbin = ""
            return None
        self.testbin = out
        return out

    def native(self, harness, arg, model, timeout=120, env_extra=None):
        tb = self.build_test()
        if tb is None:
            res = parse_native("")
            res["raw"] = "native test binary did not build"
            return res
        mp = os.path.join(self.dir, "model-%s.json" % hashlib.sha1(json.dumps([harness, arg, model], sort_keys=True).encode()).hexdigest()[:12])
        with open(mp, "w") as f:
            json.dump({"model": model}, f)
        env = base_env()
        env.update({"VERIF_REPLAY": mp, "VERIF_HARNESS": harness, "VERIF_ARG": str(arg)})
        env.update(env_extra or {})
        out, timed_out = run_group([tb, "-test.run", "TestReplay$", "-test.v"], cwd=os.path.join(REPO, self.pkg_rel), env=env, timeout=timeout)
        res = parse_native(out)
        if timed_out:
            res["timeout"] = True
            res["panic"] = None
        return res

    def native_batch(self, items, timeout=300):
        tb = self.build_test()
        if tb is None:
            return None
        bp = os.path.join(self.dir, "batch-%d.json" % int(time.time() * 1000))
        with open(bp, "w") as f:
            json.dump(items, f)
        env = base_env()
        env["VERIF_BATCH"] = bp
        out, timed_out = run_group([tb, "-test.run", "TestReplayBatch$", "-test.v"], cwd=os.path.join(REPO, self.pkg_rel), env=env, timeout=timeout)
        if timed_out:
            return None
        res, cur, buf = [], None, []
        for line in out.splitlines():
            if line.startswith("BEGIN "):
                cur = int(line.split()[1]); buf = []
            elif line.startswith("END ") and cur is not None:
                res.append(parse_native("\n".join(buf))); cur = None
            elif cur is not None:
                buf.append(line)
        return res if len(res) == len(items) else None

"""Regeneration of every checked-in generated artifact according to the Makefile
rules, with tools built from the current tree, into scratch; byte comparison
with the tree. Concrete (no symbolic variable): C20(b), and the precondition of
every other check (the engine executes what generated_static_code.go says)."""
import os, re, shlex, subprocess
from driver import REPO, base_env, log

TOOLS = {
    "static_code_generator": "./bootstrap/cmd/static_code_generator",
    "bootstrap-build": "./bootstrap/cmd/bootstrap-build",
    "bootstrap-pigeon": "./bootstrap/cmd/bootstrap-pigeon",
    "pigeon": ".",
}


def parse_makefile():
    """Returns list of (target, first_dep, tool, args) for rules whose recipe runs a tool of the repo."""
    text = open(os.path.join(REPO, "Makefile")).read().replace("\\\n", " ")
    var = {}
    for m in re.finditer(r"^([A-Z_]+)\s*=\s*(.*)$", text, re.M):
        var[m.group(1)] = m.group(2).strip()

    def expand(s):
        for _ in range(5):
            s = re.sub(r"\$\(([A-Z_]+)\)", lambda m: var.get(m.group(1), m.group(0)), s)
        return s

    rules = []
    lines = text.split("\n")
    i = 0
    while i < len(lines):
        ln = lines[i]
        m = re.match(r"^(\S[^:=]*):\s*(.*)$", ln)
        if m and not ln.startswith("\t") and not ln.startswith(".") and "=" not in ln.split(":")[0]:
            target = expand(m.group(1).strip())
            deps = expand(m.group(2)).split()
            recipe = []
            i += 1
            while i < len(lines) and lines[i].startswith("\t"):
                recipe.append(lines[i].strip())
                i += 1
            for rc in recipe:
                rc = rc.lstrip("@")
                if rc.startswith("!"):
                    continue  # the "must fail" probe of issue_79 is C07's subject
                rc = expand(rc)
                mm = re.match(r"^\./bin/([a-z_\-]+)\s+(.*)$", rc)
                if not mm or mm.group(1) not in TOOLS:
                    continue
                tool, rest = mm.group(1), mm.group(2)
                first = deps[0] if deps else ""
                rest = rest.replace("$<", first)
                out_in_args = "> $@" not in rest
                rest = rest.replace("> $@", "").strip()
                args = [a.replace("$@", "@OUT@") for a in shlex.split(rest)]
                rules.append({"target": os.path.normpath(target), "tool": tool, "args": args, "stdout": not out_in_args})
            continue
        i += 1
    return rules


def build_tools(w):
    bindir = os.path.join(w.dir, "regen_bin")
    os.makedirs(bindir, exist_ok=True)
    for name, pkg in TOOLS.items():
        r = subprocess.run(["go", "build", "-o", os.path.join(bindir, name), pkg], cwd=REPO, env=base_env(),
                           capture_output=True, text=True)
        if r.returncode != 0:
            return None, "%s does not build: %s" % (name, r.stderr[-500:])
    return bindir, None


def regen_all(w):
    """Returns (results, error). results: list of dict(target, status, detail)."""
    bindir, err = build_tools(w)
    if err:
        return [], err
    outdir = os.path.join(w.dir, "regen_out")
    os.makedirs(outdir, exist_ok=True)
    results = []
    for k, r in enumerate(parse_makefile()):
        out = os.path.join(outdir, "%03d_%s" % (k, os.path.basename(r["target"])))
        args = [a.replace("@OUT@", out) for a in r["args"]]
        cmd = [os.path.join(bindir, r["tool"])] + args
        try:
            if r["stdout"]:
                with open(out, "wb") as f:
                    p = subprocess.run(cmd, cwd=REPO, env=base_env(), stdout=f, stderr=subprocess.PIPE, timeout=120)
            else:
                p = subprocess.run(cmd, cwd=REPO, env=base_env(), capture_output=True, timeout=120)
        except subprocess.TimeoutExpired:
            results.append({"target": r["target"], "status": "timeout", "cmd": " ".join([r["tool"]] + r["args"])})
            continue
        tree = os.path.join(REPO, r["target"])
        st = "identical"
        detail = ""
        if p.returncode != 0:
            st, detail = "tool-failed", (p.stderr or b"").decode("utf-8", "replace")[-300:]
        elif not os.path.exists(tree):
            st = "missing-in-tree"
        else:
            a, b = open(out, "rb").read(), open(tree, "rb").read()
            if a != b:
                st = "differs"
                al, bl = a.split(b"\n"), b.split(b"\n")
                for n, (x, y) in enumerate(zip(al, bl)):
                    if x != y:
                        detail = "first difference at line %d: regenerated %r vs tree %r" % (n + 1, x[:120], y[:120])
                        break
                else:
                    detail = "length differs: %d vs %d lines" % (len(al), len(bl))
        results.append({"target": r["target"], "status": st, "detail": detail, "cmd": " ".join([r["tool"]] + r["args"])})
    return results, None

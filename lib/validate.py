import json, jsonschema, sys, glob
m=json.load(open('/verif/MANIFEST.json')); s=json.load(open('/root/.vp/MANIFEST.schema.json'))
jsonschema.validate(m,s); print("manifest ok")
es=json.load(open('/root/.vp/EVIDENCE.schema.json'))
for c in m['checks']:
    p=c['property_id']
    try:
        jsonschema.validate(json.load(open('/verif/evidence/%s.json'%p)), es); print(p,'evidence ok')
    except Exception as e:
        print(p,'EVIDENCE PROBLEM', str(e)[:300])
props=[json.loads(l)['id'] for l in open('/verif/properties.jsonl')]
claimed={c['property_id'] for c in m['checks']}; na={x['property_id'] for x in m.get('not_applicable',[])}
print('unlisted:', [p for p in props if p not in claimed and p not in na])

"""Harness source for the reference-based family: the generated parser and the
reference interpreter run on the same symbolic input inside one package."""
import gspec


def go_bytes_str(bs):
    return '"' + "".join("\\x%02x" % b for b in bs) + '"'


def alphabet_for(g, extra=b"\nz\xc3\xa9"):
    bs = set(gspec.terminals_alphabet(g))
    bs.update(extra)
    bs.update((g.get("alphabet_extra") or "").encode())
    return sorted(bs)


def harness_src(g, pkg, props, unconstrained=False, entry="", file_name=""):
    """props: which Harness_Cxx functions to emit."""
    st_keys = gspec.state_keys(g)
    uses_fault = gspec.uses_fault(g)
    uses_state = gspec.uses_state(g)
    alpha = alphabet_for(g)
    init_opts = []
    ref_init = []
    box_keys = []
    for k, isbox in sorted(st_keys.items()):
        if k in (g.get("noinit_keys") or []):
            continue  # the key does not exist when the parse starts
        if isbox:
            init_opts.append('InitState(%s, box{new(int)})' % gspec.go_quote(k))
            box_keys.append(k)
        else:
            init_opts.append('InitState(%s, 0)' % gspec.go_quote(k))
        ref_init.append('%s: 0' % gspec.go_quote(k))
    s = []
    s.append("package %s\n" % pkg)
    if "C18" in props:
        s.append('import (\n\t"fmt"\n\t"io"\n\t"sort"\n\t"sync"\n\t"sync/atomic"\n\n\t"vh/ref"\n)\n')
    else:
        s.append('import (\n\t"io"\n\n\t"vh/ref"\n)\n')
    s.append("const symAlphabet = %s\n" % go_bytes_str(alpha))
    s.append("const symFile = %s\n" % gspec.go_quote(file_name))
    s.append("const symEntry = %s\n" % gspec.go_quote(entry))
    s.append("const symFaultSlots = %d\n" % int(g.get("fault_slots", 0)))
    s.append("const symFaultInvocations = %d\n" % int(g.get("fault_invocations", 2)))
    s.append('''
type outcome struct {
	v        any
	err      error
	tr       []any
	panicked bool
	pval     any
}

func symInput(n int, constrained bool) []byte {
	return symInputNamed("in", n, constrained)
}

func symInputNamed(name string, n int, constrained bool) []byte {
	in := symBytes(name, n)
	if constrained {
		for i := range in {
			symAssume(symInSet(in[i], symAlphabet))
		}
	}
	return in
}

func runReal(in []byte, opts ...Option) (o outcome) {
	var tr []any
	opts = append(opts, GlobalStore("trace", &tr))
''')
    if uses_fault:
        s.append("\tfaultCnt = [8]int{}\n")
    for io in init_opts:
        s.append("\topts = append(opts, %s)\n" % io)
    s.append('''	if symEntry != "" {
		opts = append(opts, Entrypoint(symEntry))
	}
	func() {
		defer func() {
			if p := recover(); p != nil {
				o.panicked = true
				o.pval = p
			}
		}()
		if symViaReader {
			o.v, o.err = ParseReader(symFile, &symReader{data: in}, opts...)
		} else {
			o.v, o.err = Parse(symFile, in, opts...)
		}
	}()
	o.tr = tr
	return
}

var symEOF = io.EOF

// symDeepCopy copies the slices of a value returned by Parse.
func symDeepCopy(v any) any {
	switch x := v.(type) {
	case []byte:
		if x == nil {
			return x
		}
		return append([]byte{}, x...)
	case []any:
		if x == nil {
			return x
		}
		out := make([]any, len(x))
		for i := range x {
			out[i] = symDeepCopy(x[i])
		}
		return out
	}
	return v
}

// symViaReader: the calls of a harness go through ParseReader (the documented
// entry point that reads everything and delegates to Parse) instead of Parse.
var symViaReader bool

type symReader struct {
	data []byte
	off  int
}

func (r *symReader) Read(p []byte) (int, error) {
	if r.off >= len(r.data) {
		return 0, symEOF
	}
	n := copy(p, r.data[r.off:])
	r.off += n
	return n, nil
}

func refConfig() ref.Config {
	return ref.Config{File: symFile, Recover: true, InitState: map[string]int{%s}}
}

func errStrings(err error) []string {
	if err == nil {
		return nil
	}
	el, ok := err.(errList)
	if !ok {
		return []string{"<not an errList> " + err.Error()}
	}
	out := make([]string, 0, len(el))
	for _, e := range el {
		out = append(out, e.Error())
	}
	return out
}

func sameStrings(a, b []string) bool {
	if len(a) != len(b) {
		return false
	}
	for i := range a {
		if a[i] != b[i] {
			return false
		}
	}
	return true
}

// ambiguousStart: the line/col of offset 0 of an input that starts with a
// newline is not pinned by the properties (1:1 or 2:0); a synthesized no-match
// error located there is outside the oracle.
func ambiguousStart(r ref.Result, in []byte) bool {
	return r.NoMatch && r.FailOff == 0 && len(in) > 0 && in[0] == '\\n'
}

func outcomeNote(o outcome) string {
	s := "v"
	if o.v == nil {
		s = "nil"
	}
	if o.err != nil {
		s += "+err"
	}
	if o.panicked {
		s += "+panic"
	}
	return s
}
''' % ", ".join(ref_init))

    if "C01" in props:
        s.append('''
// C01: Parse succeeds exactly when the reference matches, with the documented value.
func Harness_C01(n int) {
	in := symInput(n, %s)
	o := runReal(in)
	r := ref.Run(refG, symEntry, in, refConfig())
	symNote(outcomeNote(o))
	symAssert(!o.panicked, "C01: Parse panicked")
	symAssert((o.v != nil) == r.OK, "C01: success differs from PEG semantics")
	if r.OK {
		symAssert(symEqual(o.v, r.Val), "C01: value differs from the documented shape")
	}
	symReach("end")
}
''' % ("false" if unconstrained else "true"))
    if "TWIN" in props:
        s.append('''
// vacuity twin: the final assertion must come back violated
func Harness_TWIN(n int) {
	in := symInput(n, true)
	o := runReal(in)
	r := ref.Run(refG, symEntry, in, refConfig())
	_ = o
	_ = r
	symAssert(false, "TWIN: reachable")
}
''')
    if "C02" in props:
        ptags = []
        def collect(e):
            b = e.get("block")
            if b and e["k"] in ("andcode", "notcode", "state"):
                ptags.append(b["tag"])
        for r in g["rules"]:
            gspec.walk(r["expr"], collect)
        s.append("var symPredTags = map[string]bool{%s}\n" % ", ".join("%s: true" % gspec.go_quote(t) for t in sorted(set(ptags))))
        s.append('''
// C02: every code-block invocation sees the true context (trace equality),
// and positions are a pure function of input and offset. Records of predicate
// and state blocks are compared in two parts so that a stale text/pos (one
// class of defect) is distinguishable from wrong labels or a wrong action context.
func Harness_C02(n int) {
	in := symInput(n, true)
	o := runReal(in)
	r := ref.Run(refG, symEntry, in, refConfig())
	symNote(outcomeNote(o))
	symAssert(symEqual(len(o.tr), len(r.Trace)), "C02: number of code-block invocations differs")
	if len(o.tr) == len(r.Trace) {
		for i := range o.tr {
			a, _ := o.tr[i].([]any)
			b, _ := r.Trace[i].([]any)
			tag, _ := b[0].(string)
			if symPredTags[tag] && len(a) == len(b) && len(b) >= 5 {
				symAssert(symEqual(a[0], b[0]), "C02: a different block ran")
				symAssert(symEqual(a[5:], b[5:]), "C02: predicate/state block received different label values")
				symDebug("real", a)
				symDebug("ref", b)
				symAssert(symEqual(a[1:5], b[1:5]), "C02-predctx: predicate/state block did not see empty text and the current position")
			} else {
				symAssert(symEqual(o.tr[i], r.Trace[i]), "C02: code block saw a different context than documented")
			}
		}
	}
	if r.OK {
		symAssert(symEqual(o.v, r.Val), "C02: value built from text/pos/labels differs")
	}
	symReach("end")
}
''')
    if "C12" in props:
        s.append('''
// C12: farthest failure position and exact expected set.
func Harness_C12(n int) {
	in := symInput(n, true)
	o := runReal(in)
	r := ref.Run(refG, symEntry, in, refConfig())
	symNote(outcomeNote(o))
	if !r.OK {
		symAssert(o.v == nil && o.err != nil, "C12: failed match must return nil value and an error")
		if ambiguousStart(r, in) {
			symReach("end")
			return
		}
		symDebug("real", errStrings(o.err))
		symDebug("ref", r.Errs)
		symAssert(sameStrings(errStrings(o.err), r.Errs), "C12: error list differs (farthest position / expected set)")
	}
	symReach("end")
}
''')
    if "C17" in props:
        s.append('''
// C17: invalid UTF-8 reported by default, matched bytewise when allowed.
func Harness_C17(n int) {
	in := symInput(n, false)
	allow := symBool("allow")
	o := runReal(in, AllowInvalidUTF8(allow))
	cfg := refConfig()
	cfg.AllowBad = allow
	r := ref.Run(refG, symEntry, in, cfg)
	symNote(outcomeNote(o))
	symAssert(!o.panicked, "C17: Parse panicked")
	symAssert((o.v != nil) == r.OK, "C17: success differs")
	if r.OK {
		symAssert(symEqual(o.v, r.Val), "C17: value is not the original bytes")
	}
	if !ambiguousStart(r, in) {
		symDebug("real", errStrings(o.err))
		symDebug("ref", r.Errs)
		symAssert(sameStrings(errStrings(o.err), r.Errs), "C17: error list differs")
	}
	symReach("end")
}
''')
    if "C05" in props:
        s.append('''
// C05: the store seen by every block equals the functional reference store.
func Harness_C05(n int) {
	in := symInput(n, true)
	o := runReal(in)
	r := ref.Run(refG, symEntry, in, refConfig())
	symNote(outcomeNote(o))
	symAssert((o.v != nil) == r.OK, "C05: success differs")
	symAssert(symEqual(len(o.tr), len(r.Trace)), "C05: number of block invocations differs")
	if len(o.tr) == len(r.Trace) {
		for i := range o.tr {
			a, _ := o.tr[i].([]any)
			b, _ := r.Trace[i].([]any)
			if len(b) == 2 {
				// [tag, value of state[key] as seen by the block]
				symDebug("real", a)
				symDebug("ref", b)
				symAssert(symEqual(o.tr[i], r.Trace[i]), "C05: a block observed a store value different from the reference")
			} else if len(a) == len(b) && len(b) >= 5 {
				// context records: which block ran and with which labels (text/pos is C02's)
				symAssert(symEqual(a[0], b[0]), "C05: a different block ran")
				symAssert(symEqual(a[5:], b[5:]), "C05: block received different label values")
			} else {
				symAssert(false, "C05: malformed trace record")
			}
		}
	}
	if r.OK {
		symAssert(symEqual(o.v, r.Val), "C05: value differs")
	}
	symReach("end")
}
''')
    if "C14" in props:
        s.append('''
// C14: throw/recover follow the labelled-failure semantics.
func Harness_C14(n int) {
	in := symInput(n, true)
	o := runReal(in)
	r := ref.Run(refG, symEntry, in, refConfig())
	symNote(outcomeNote(o))
	symAssert(!o.panicked, "C14: Parse panicked")
	symAssert((o.v != nil) == r.OK, "C14: success differs from labelled-failure semantics")
	if r.OK {
		symAssert(symEqual(o.v, r.Val), "C14: value differs")
	}
	symAssert(symEqual(len(o.tr), len(r.Trace)), "C14: number of block invocations differs")
	symReach("end")
}
''')
    if "C16" in props and g.get("_optimized"):
        # -optimize-parser: no Memoize, no Statistics - the number of expressions the budget has to be measured
        # against comes from the reference interpreter (the optimized parser evaluates the same expressions)
        s.append('''
func hasMaxErr(err error) bool {
	for _, m := range errStrings(err) {
		if len(m) >= 32 && m[len(m)-32:] == "max number of expressions parsed" {
			return true
		}
	}
	return false
}

// C16 on a parser generated with -optimize-parser.
func Harness_C16(n int) {
	in := symInput(n, true)
	budget := symU64("budget")
	symAssume(budget >= 1)
	%s
	o := runReal(in, MaxExpressions(budget))
	symNote(outcomeNote(o))
	symAssert(!o.panicked, "C16: the budget panic escaped Parse")
	hit := hasMaxErr(o.err)
	if hit {
		symAssert(o.v == nil, "C16: value returned although the budget was exhausted")
	}
	if %s {
		o0 := runReal(in)
		r := ref.Run(refG, symEntry, in, refConfig())
		if !r.Panicked && !symLeftRecC16 {
			symDebug("ref", r.Evals)
			symAssert(hit == (uint64(r.Evals) > budget), "C16: (-optimize-parser) the budget error is not reported exactly when the parse needs more expressions than the budget")
		}
		if !hit {
			symAssert(symEqual(o.v, o0.v), "C16: value differs from the unbounded parse")
			symAssert(sameStrings(errStrings(o.err), errStrings(o0.err)), "C16: errors differ from the unbounded parse")
		}
	} else {
		// grammar with inputs on which the unbounded parse does not end: the budgeted parse must end (the engine's
		// step limit turns a parse that does not into a counterexample that is replayed natively under a timeout)
		_ = hit
	}
	symReach("end")
}

func Harness_C16reuse(n int) { symReach("end") } // (needs Statistics: standard parsers only)
''' % (("symAssume(budget <= %d)" % int(g.get("budget_max", 12))) if g.get("nonterminating")
       else "symAssume(symOr(budget <= %d, budget >= 1<<31))" % int(g.get("budget_max", 24)),
       "true" if not g.get("nonterminating") else "false"))
        s.append("const symLeftRecC16 = %s\n" % ("true" if g.get("needs_lr") else "false"))
    elif "C16" in props:
        s.append('''
func hasMaxErr(err error) bool {
	for _, m := range errStrings(err) {
		if len(m) >= 32 && m[len(m)-32:] == "max number of expressions parsed" {
			return true
		}
	}
	return false
}

// C16: MaxExpressions(n) bounds every parse and reports the exhaustion.
func Harness_C16(n int) {
	in := symInput(n, true)
	budget := symU64("budget")
	// small budgets (every one forks the parse) or huge ones (never exhausted)
	symAssume(budget >= 1)
	%s
	memo := symBool("memoize")
	var st Stats
	o := runReal(in, MaxExpressions(budget), Memoize(memo), Statistics(&st, "no match"))
	symNote(outcomeNote(o))
	symAssert(!o.panicked, "C16: the budget panic escaped Parse")
	hit := hasMaxErr(o.err)
	// (written without budget+1, which wraps for the largest budgets)
	symAssert(symOr(st.ExprCnt == 0, st.ExprCnt-1 <= budget), "C16: more expressions were evaluated than the budget allows")
	if hit {
		symAssert(o.v == nil, "C16: value returned although the budget was exhausted")
		symAssert(st.ExprCnt-1 == budget, "C16: budget error reported before the budget was exhausted")
	}
	if %s {
		// terminating grammar: an unexhausted budget gives the unbounded result
		var st0 Stats
		o0 := runReal(in, Memoize(memo), Statistics(&st0, "no match"))
		if !memo && !symLeftRecC16 {
			// the budget counts expressions: the counter of the unbounded run is the number of expression
			// evaluations of the reference (memo hits and left-recursive growth are outside this clause)
			r := ref.Run(refG, symEntry, in, refConfig())
			if !r.Panicked {
				symDebug("real", st0.ExprCnt, "ref", r.Evals)
				symAssert(st0.ExprCnt == uint64(r.Evals), "C16: the expression counter differs from the number of expressions evaluated")
			}
		}
		if !hit {
			symAssert(symEqual(o.v, o0.v), "C16: value differs from the unbounded parse")
			symAssert(sameStrings(errStrings(o.err), errStrings(o0.err)), "C16: errors differ from the unbounded parse")
			symAssert(st.ExprCnt == st0.ExprCnt, "C16: expression count differs from the unbounded parse")
		} else {
			symAssert(st0.ExprCnt > budget, "C16: budget error although the unbounded parse needs no more than the budget")
		}
	} else {
		// non-terminating grammar: the parse must end, by the budget
		_ = hit
	}
	symReach("end")
}
''' % (("symAssume(budget <= %d) // non-terminating grammar: a huge budget is a run of 2^31 and more iterations, not a hang" % int(g.get("budget_max", 12))) if g.get("nonterminating")
       else "symAssume(symOr(budget <= %d, budget >= 1<<31))" % int(g.get("budget_max", 24)),
       "true" if not g.get("nonterminating") else "false"))
        s.append("const symLeftRecC16 = %s\n" % ("true" if g.get("needs_lr") else "false"))
        s.append('''
// C16 with a Statistics collector that has been used before (its counter does
// not start at zero): the budget still bounds the parse - at most budget
// expressions are evaluated by this call - and an unexhausted budget still
// gives the unbounded result.
func Harness_C16reuse(n int) {
	in := symInput(n, true)
	budget := symU64("budget")
	pre := symU64("pre")
	symAssume(budget >= 1)
	symAssume(budget <= %d)
	symAssume(pre <= 40)
	memo := symBool("memoize")
	var st Stats
	st.ExprCnt = pre
	var o outcome
	if symBool("stats_first") {
		o = runReal(in, Statistics(&st, "no match"), MaxExpressions(budget), Memoize(memo))
	} else {
		o = runReal(in, MaxExpressions(budget), Memoize(memo), Statistics(&st, "no match"))
	}
	symNote(outcomeNote(o))
	symAssert(!o.panicked, "C16: the budget panic escaped Parse")
	symAssert(st.ExprCnt >= pre, "C16: the expression counter went backwards")
	done := st.ExprCnt - pre
	symAssert(symOr(done == 0, done-1 <= budget), "C16: more expressions were evaluated than the budget allows (Statistics collector used before)")
	if %s && !hasMaxErr(o.err) {
		o0 := runReal(in, Memoize(memo))
		symAssert(symEqual(o.v, o0.v), "C16: value differs from the unbounded parse")
		symAssert(sameStrings(errStrings(o.err), errStrings(o0.err)), "C16: errors differ from the unbounded parse")
	}
	symReach("end")
}
''' % (int(g.get("budget_max", 12)) if g.get("nonterminating") else min(16, int(g.get("budget_max", 24))), "true" if not g.get("nonterminating") else "false"))
    if "C08" in props:
        s.append('''
// C08: left-recursive rules parse as the left-associative iteration they denote.
func Harness_C08(n int) {
	in := symInput(n, true)
%s
	r := ref.Run(refG, symEntry, in, refConfig())
	symNote(outcomeNote(o))
	symAssert(!o.panicked, "C08: Parse panicked")
	symAssert((o.v != nil) == r.OK, "C08: acceptance differs from the iterative definition")
	if r.OK {
		symDebug("real", o.v)
		symDebug("ref", r.Val)
		symAssert(symEqual(o.v, r.Val), "C08: value is not the left-nested result")
	}
	if !ambiguousStart(r, in) {
		symAssert(sameStrings(errStrings(o.err), r.Errs), "C08: errors differ")
	}
	symReach("end")
}
''' % ("\to := runReal(in)" if g.get("_optimized") else "\tmemo := symBool(\"memoize\")\n\to := runReal(in, Memoize(memo))"))
    if "C04init" in props:
        s.append('''
// C04 (by-product): the generated package initialises (every Unicode class
// resolves) and parses without a panic.
func Harness_C04init(n int) {
	in := symInput(n, true)
	o := runReal(in)
	symNote(outcomeNote(o))
	symAssert(!o.panicked, "C04: the generated parser panicked")
	symReach("end")
}
''')
    if "C18" in props:
        s.append('''
// C18: ownership discipline that makes concurrent Parse calls independent
// (engine monitor "ownership": package-level objects are only read, maps are
// empty when returned to the pool and not used afterwards, Pool.Get returns
// any pooled map or a fresh one), and a Parse gives the same result whatever
// ran before it and whichever pooled maps it receives.
func Harness_C18(n int) {
	inA := symInputNamed("a", n, true)
	inB := symInputNamed("b", n, true)
	%s
	symMonitor("ownership")
	alone := runReal(inB%s)
	other := runReal(inA%s)
	again := runReal(inB%s)
	symNote(outcomeNote(alone) + "/" + outcomeNote(other))
	symAssert(!alone.panicked && !other.panicked && !again.panicked, "C18: Parse panicked")
	symAssert(symEqual(alone.v, again.v), "C18: the value of a Parse depends on an earlier Parse in the same process")
	symAssert(sameStrings(errStrings(alone.err), errStrings(again.err)), "C18: the errors of a Parse depend on an earlier Parse")
	symAssert(symEqual(alone.tr, again.tr), "C18: the code blocks of a Parse saw different contexts after an earlier Parse")
	symReach("end")
}
''' % ((("", "", "", "") if g.get("_optimized") else (
    # option values are built once and handed to every call that wants the same setting (a caller keeping its options in a variable)
    "m1, m2 := symBool(\"m1\"), symBool(\"m2\")\n\to1 := Memoize(m1)\n\to2 := o1\n\tif m2 != m1 {\n\t\to2 = Memoize(m2)\n\t}",
    ", o1", ", o2", ", o1"))))
    if "C18" in props:
        s.append('''
// C18 (order independence): what Parse(b) returns after another call equals
// what it returns in a process of its own - values, errors, block trace and
// the statistics it hands back. symFreshProcess puts every package-level
// variable of the generated package back to its initial value, so a cache
// filled by whichever call comes first is visible here. The native
// confirmation runs the two halves in two processes (symMode).
func c18Digest(o outcome, st *Stats) string {
	s := fmt.Sprintf("%%v|%%v|%%v", o.v, errStrings(o.err), o.tr)
	if st != nil {
		keys := []string{}
		for k := range st.ChoiceAltCnt {
			keys = append(keys, k)
		}
		sort.Strings(keys)
		s += fmt.Sprintf("|%%d", st.ExprCnt)
		for _, k := range keys {
			alts := []string{}
			for a := range st.ChoiceAltCnt[k] {
				alts = append(alts, a)
			}
			sort.Strings(alts)
			for _, a := range alts {
				s += fmt.Sprintf("|%%s/%%s=%%d", k, a, st.ChoiceAltCnt[k][a])
			}
		}
	}
	return s
}

func Harness_C18order(n int) {
	inA := symInputNamed("a", n, true)
	inB := symInputNamed("b", n, true)
	mode := symMode()
	var after, alone outcome
	%s
	if mode != "alone" {
		runReal(inA%s)
		after = runReal(inB%s)
	}
	symFreshProcess()
	if mode != "after" {
		alone = runReal(inB%s)
	}
	if mode != "both" {
		if mode == "after" {
			symNote("digest:" + c18Digest(after, %s))
		} else {
			symNote("digest:" + c18Digest(alone, %s))
		}
		symReach("end")
		return
	}
	symNote(outcomeNote(alone))
	symAssert(!after.panicked && !alone.panicked, "C18: Parse panicked")
	symAssert(symEqual(alone.v, after.v), "C18: the value of a Parse differs from what the call returns in a process of its own")
	symAssert(sameStrings(errStrings(alone.err), errStrings(after.err)), "C18: the errors of a Parse differ from what the call returns in a process of its own")
	symAssert(symEqual(alone.tr, after.tr), "C18: the code blocks of a Parse saw different contexts than in a process of its own")
	%s
	symReach("end")
}
''' % (("", "", "", "", "nil", "nil", "") if g.get("_optimized") else
       ("var stA, st1, st2 Stats", ", Statistics(&stA, \"no match\")", ", Statistics(&st1, \"no match\")", ", Statistics(&st2, \"no match\")", "&st1", "&st2",
        "symAssert(st1.ExprCnt == st2.ExprCnt && symEqual(st1.ChoiceAltCnt, st2.ChoiceAltCnt), \"C18: the statistics of a Parse differ from what the call reports in a process of its own\")")))
        s.append('''
// C18 (through ParseReader): the same three calls entered through ParseReader;
// the value of the first call is compared after the other two have run, so a
// buffer shared between calls shows in it.
func Harness_C18reader(n int) {
	inA := symInputNamed("a", n, true)
	inB := symInputNamed("b", n, true)
	symViaReader = true
	symMonitor("ownership-lifo")
	alone := runReal(inB)
	snap := symDeepCopy(alone.v)
	other := runReal(inA)
	symAssert(symEqual(alone.v, snap), "C18: the value a ParseReader call has returned is changed by a later call")
	again := runReal(inB)
	symNote(outcomeNote(alone) + "/" + outcomeNote(other))
	symAssert(!alone.panicked && !other.panicked && !again.panicked, "C18: ParseReader panicked")
	symAssert(symEqual(alone.v, again.v), "C18: the value of a ParseReader call depends on (or is changed by) another call in the same process")
	symAssert(sameStrings(errStrings(alone.err), errStrings(again.err)), "C18: the errors of a ParseReader call depend on another call")
	symAssert(symEqual(alone.tr, again.tr), "C18: the code blocks of a ParseReader call saw different contexts after another call")
	symMonitor("off")
	symViaReader = false
	symReach("end")
}

// C18 (aborted calls): the middle call is cut short by an expression budget at
// an arbitrary point (a recovered panic in the middle of rules, labels and
// recovery operators); whatever it leaves behind must not reach the next call.
func Harness_C18abort(n int) {
	inA := symInputNamed("a", n, true)
	inB := symInputNamed("b", n, true)
	budget := symU64("budget")
	symAssume(budget >= 1 && budget <= 20)
	symMonitor("ownership-lifo") // the pool hands back what was put last (no nondeterministic Get in this family)
	alone := runReal(inB)
	other := runReal(inA, MaxExpressions(budget))
	again := runReal(inB)
	symNote(outcomeNote(alone) + "/" + outcomeNote(other))
	symAssert(!alone.panicked && !other.panicked && !again.panicked, "C18: Parse panicked")
	symAssert(symEqual(alone.v, again.v), "C18: the value of a Parse depends on an earlier, aborted Parse in the same process")
	symAssert(sameStrings(errStrings(alone.err), errStrings(again.err)), "C18: the errors of a Parse depend on an earlier, aborted Parse")
	symAssert(symEqual(alone.tr, again.tr), "C18: the code blocks of a Parse saw different contexts after an earlier, aborted Parse")
	symReach("end")
}
''')
        s.append('''
// C18 (options of another call): the middle call sets every runtime option to
// its non-default value; the third call, made with default options like the
// first, must return what the first returned (nothing a call was configured with
// may reach a later call, e.g. through recycled parser objects).
func Harness_C18opts(n int) {
	inA := symInputNamed("a", n, true)
	inB := symInputNamed("b", n, true)
	symMonitor("ownership-lifo")
	alone := runReal(inB)
	OTHERCALL
	again := runReal(inB)
	symNote(outcomeNote(alone) + "/" + outcomeNote(other))
	symAssert(!alone.panicked && !again.panicked, "C18: Parse panicked")
	symAssert(symEqual(alone.v, again.v), "C18: the value of a Parse with default options depends on the options of an earlier Parse")
	symAssert(sameStrings(errStrings(alone.err), errStrings(again.err)), "C18: the errors of a Parse with default options depend on the options of an earlier Parse")
	symAssert(symEqual(alone.tr, again.tr), "C18: the code blocks of a Parse with default options saw different contexts after a Parse with other options")
	symReach("end")
}
'''.replace("OTHERCALL", "other := runReal(inA, AllowInvalidUTF8(true), Recover(false), MaxExpressions(1<<20))" if g.get("_optimized") else
           "var stO Stats\n\tother := runReal(inA, AllowInvalidUTF8(true), Recover(false), MaxExpressions(1<<20), Memoize(true), Debug(true), Statistics(&stO, \"no match\"))"))
        s.append('''
// C18 (one Option value passed to several calls): option values are ordinary Go
// values - a program may build its option list once and hand it to every Parse
// call, from several goroutines. Using an option must therefore not write to
// anything the option value holds (engine: ownership monitor over everything
// reachable from the option list; the documented out-parameter of Statistics is
// the exception and is not in the list), and three calls with the one list must
// behave like calls with lists of their own.
func Harness_C18sharedopts(n int) {
	inA := symInputNamed("a", n, true)
	inB := symInputNamed("b", n, true)
	opts := []Option{SHAREDOPTS}
	symMonitor("ownership-lifo")
	symShare(opts)
	alone := runReal(inB, opts...)
	other := runReal(inA, opts...)
	again := runReal(inB, opts...)
	symMonitor("off")
	own := runReal(inB, SHAREDOPTS)
	symNote(outcomeNote(alone) + "/" + outcomeNote(other))
	symAssert(!alone.panicked && !other.panicked && !again.panicked, "C18: Parse panicked")
	symAssert(symEqual(alone.v, again.v) && symEqual(alone.v, own.v), "C18: the value of a Parse depends on its option values having been used by another call")
	symAssert(sameStrings(errStrings(alone.err), errStrings(again.err)) && sameStrings(errStrings(alone.err), errStrings(own.err)), "C18: the errors of a Parse depend on its option values having been used by another call")
	symAssert(symEqual(alone.tr, again.tr) && symEqual(alone.tr, own.tr), "C18: the code blocks of a Parse saw different contexts because its option values had been used by another call")
	symReach("end")
}

// Native confirmation for the family above (race detector): 8 goroutines x 50
// Parse calls, all with the one option list.
func Harness_C18nativeopts(n int) {
	inA := symInputNamed("a", n, true)
	inB := symInputNamed("b", n, true)
	opts := []Option{SHAREDOPTS}
	var wg sync.WaitGroup
	results := make([][]outcome, 8)
	for g := 0; g < 8; g++ {
		wg.Add(1)
		go func(g int) {
			defer wg.Done()
			for i := 0; i < 50; i++ {
				in := inA
				if (g+i)%2 == 1 {
					in = inB
				}
				results[g] = append(results[g], runReal(in, opts...))
			}
		}(g)
	}
	wg.Wait()
	aloneA := runReal(inA, SHAREDOPTS)
	aloneB := runReal(inB, SHAREDOPTS)
	var bad int32
	for g := 0; g < 8; g++ {
		for i, o := range results[g] {
			want := aloneA
			if (g+i)%2 == 1 {
				want = aloneB
			}
			if !symEqual(o.v, want.v) || !sameStrings(errStrings(o.err), errStrings(want.err)) || !symEqual(o.tr, want.tr) {
				atomic.AddInt32(&bad, 1)
			}
		}
	}
	symAssert(bad == 0, "C18: concurrent Parse calls sharing one option list returned results different from the stand-alone results")
	symReach("end")
}
'''.replace("SHAREDOPTS", "AllowInvalidUTF8(true), Recover(true), MaxExpressions(1<<20), GlobalStore(\"zz\", 1)" if g.get("_optimized") else
           "Debug(true), Memoize(true), AllowInvalidUTF8(true), Recover(true), MaxExpressions(1<<20), GlobalStore(\"zz\", 1)"))
        s.append('''
// Native confirmation of an ownership-discipline violation (run under the
// race detector, never by the engine): 8 goroutines x 200 Parse calls on the
// two inputs of the model; every result must equal the stand-alone result.
func Harness_C18native(n int) {
	inA := symInputNamed("a", n, true)
	inB := symInputNamed("b", n, true)
	// the concurrent calls come first: whatever a generated parser builds lazily on first use is then built
	// by several goroutines at once; the stand-alone results are computed afterwards
	var wg sync.WaitGroup
	results := make([][]outcome, 8)
	for g := 0; g < 8; g++ {
		wg.Add(1)
		go func(g int) {
			defer wg.Done()
			for i := 0; i < 200; i++ {
				in := inA
				if (g+i)%%2 == 1 {
					in = inB
				}
				results[g] = append(results[g], runReal(in))
			}
		}(g)
	}
	wg.Wait()
	aloneA := runReal(inA)
	aloneB := runReal(inB)
	var bad int32
	for g := 0; g < 8; g++ {
		for i, o := range results[g] {
			want := aloneA
			if (g+i)%%2 == 1 {
				want = aloneB
			}
			if !symEqual(o.v, want.v) || !sameStrings(errStrings(o.err), errStrings(want.err)) || !symEqual(o.tr, want.tr) {
				atomic.AddInt32(&bad, 1)
			}
		}
	}
	symAssert(bad == 0, "C18: concurrent Parse calls returned results different from the stand-alone results")
	symReach("end")
}
''' % ())
    if "C07b" in props:
        s.append('''
// C07(b): a parser generated without -support-left-recursion never re-enters
// a rule at an offset at which that rule is already being evaluated (engine
// monitor on parseRule; natively the symptom is a stack overflow).
func Harness_C07b(n int) {
	in := symInput(n, true)
	symMonitor("reentry")
	o := runReal(in)
	symNote(outcomeNote(o))
	if symMonitorEvents() == 0 {
		// the monitor matched no rule entry at all (the runtime's entry point has another name): not a pass
		symNote("monitor blind")
		return
	}
	symReach("end")
}
''')
    if "C11" in props:
        s.append('''
// C11: error contract under a symbolic fault plan.
func Harness_C11(n int) {
	in := symInput(n, true)
	cfg := refConfig()
	for k := 0; k < symFaultSlots; k++ {
		for j := 0; j < symFaultInvocations; j++ {
			f := symInt("fault_"+string(rune('0'+k))+"_"+string(rune('0'+j)), 0, 3)
			faultPlan[k][j] = f
			cfg.Faults[k][j] = f
		}
	}
	rec := symBool("recover")
	cfg.Recover = rec
	o := runReal(in, Recover(rec))
	r := ref.Run(refG, symEntry, in, cfg)
	symNote(outcomeNote(o))
	if r.Panicked && !rec {
		symAssert(o.panicked, "C11: with Recover(false) the panic must reach the caller")
		symReach("end")
		return
	}
	symAssert(!o.panicked, "C11: a panic escaped Parse although Recover is on")
	if r.Panicked {
		symAssert(o.v == nil, "C11: value must be nil after a recovered panic")
	} else {
		symAssert((o.v != nil) == r.OK, "C11: success differs")
		if r.OK {
			symAssert(symEqual(o.v, r.Val), "C11: value must be returned together with errors")
		}
	}
	if !ambiguousStart(r, in) {
		symDebug("real", errStrings(o.err))
		symDebug("ref", r.Errs)
		symAssert(sameStrings(errStrings(o.err), r.Errs), "C11: error list differs from the documented contract")
	}
	if o.err != nil {
		el, ok := o.err.(errList)
		symAssert(ok, "C11: error is not a list of parser errors")
		for _, e := range el {
			pe, ok := e.(*parserError)
			symAssert(ok, "C11: element is not a *parserError")
			if ok && (pe.Inner.Error() == "errA" || pe.Inner.Error() == "errB") {
				symAssert(pe.Inner == errA || pe.Inner == errB, "C11: Inner is not the original error")
			}
		}
	}
	symReach("end")
}
''')
    return "".join(s)

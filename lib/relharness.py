"""Harness source for the relational family: two real generated parsers (or one
parser under two option sets) run on the same symbolic input in package hx."""
import gspec
from refharness import go_bytes_str, alphabet_for


def rel_src(case_id, a_rel, b_rel, alphabet, props, state_keys=None, uses_fault=False, entries=("",), budget_exprs=0, left_rec=False):
    state_keys = state_keys or {}
    s = []
    s.append("package hx\n\n")
    s.append('import (\n\tpa "vh/%s"\n\tpb "vh/%s"\n)\n\n' % (a_rel, b_rel))
    s.append("const symAlphabet = %s\n" % go_bytes_str(alphabet))
    s.append('''
type outcome struct {
	v        any
	hasErr   bool
	err      string
	tr       []any
	panicked bool
}

func symInput(n int, constrained bool) []byte {
	in := symBytes("in", n)
	if constrained {
		for i := range in {
			symAssume(symInSet(in[i], symAlphabet))
		}
	}
	return in
}

func note(o outcome) string {
	s := "v"
	if o.v == nil {
		s = "nil"
	}
	if o.hasErr {
		s += "+err"
	}
	if o.panicked {
		s += "+panic"
	}
	return s
}
''')
    for side in ("a", "b"):
        P = "p" + side
        s.append("func run%s(in []byte, entry string, opts ...%s.Option) (o outcome) {\n" % (side.upper(), P))
        s.append("\tvar tr []any\n\topts = append(opts, %s.GlobalStore(\"trace\", &tr))\n" % P)
        for k, isbox in sorted(state_keys.items()):
            if isbox:
                s.append("\topts = append(opts, %s.InitState(%s, %s.NewBox()))\n" % (P, gspec.go_quote(k), P))
            else:
                s.append("\topts = append(opts, %s.InitState(%s, 0))\n" % (P, gspec.go_quote(k)))
        s.append("\tif entry != \"\" {\n\t\topts = append(opts, %s.Entrypoint(entry))\n\t}\n" % P)
        s.append('''	func() {
		defer func() {
			if p := recover(); p != nil {
				o.panicked = true
			}
		}()
		v, err := %s.Parse("", in, opts...)
		o.v = v
		if err != nil {
			o.hasErr = true
			o.err = err.Error()
		}
	}()
	o.tr = tr
	return
}

''' % P)
    s.append('''
// flatten normalises a value so that regrouping of action-less structure is
// invisible: matched bytes are concatenated in order; action results (records:
// []any starting with a tag string) stay records whose label arguments are
// themselves normalised; other action results (strings) are kept whole.
func flatten(v any, out *[]any) {
	switch x := v.(type) {
	case nil:
	case []byte:
		for _, b := range x {
			*out = append(*out, b)
		}
	case []any:
		if len(x) >= 5 {
			if _, ok := x[0].(string); ok {
				rec := append([]any{}, x[:5]...)
				var args []any
				for _, e := range x[5:] {
					var one []any
					flatten(e, &one)
					args = append(args, one)
				}
				rec = append(rec, args)
				*out = append(*out, rec)
				return
			}
		}
		for _, e := range x {
			flatten(e, out)
		}
	default:
		*out = append(*out, x)
	}
}

func flatTrace(tr []any) []any {
	var out []any
	for _, r := range tr {
		flatten(r, &out)
	}
	return out
}
''')
    ents = ", ".join(gspec.go_quote(e) for e in entries)
    s.append("var symEntries = []string{%s}\n" % ents)
    if "C10" in props:
        s.append('''
// C10: -optimize-parser output returns the same value and the same error list.
func Harness_C10(n int) {
	in := symInput(n, true)
	for _, e := range symEntries {
		a := runA(in, e)
		b := runB(in, e)
		symNote(note(a))
		symAssert(a.panicked == b.panicked, "C10: one parser panicked")
		symAssert(symEqual(a.v, b.v), "C10: value differs between standard and -optimize-parser")
		symAssert(a.hasErr == b.hasErr, "C10: error presence differs")
		symAssert(symEqual(a.err, b.err), "C10: error list differs")
		symAssert(symEqual(a.tr, b.tr), "C10: code blocks ran differently")
	}
	symReach("end")
}
''')
    if "C15" in props:
        s.append('''
// C15: -optimize-basic-latin matches exactly when the general procedure does.
func Harness_C15(n int) {
	in := symInput(n, false)
	a := runA(in, "")
	b := runB(in, "")
	symNote(note(a))
	symAssert(a.panicked == b.panicked, "C15: one parser panicked")
	symAssert(symEqual(a.v, b.v), "C15: class matched differently with -optimize-basic-latin")
	symAssert(a.hasErr == b.hasErr, "C15: error presence differs")
	symAssert(symEqual(a.err, b.err), "C15: error differs")
	symReach("end")
}
''')
    if "C09" in props:
        s.append('''
// C09: -optimize-grammar preserves the language and what actions see.
func Harness_C09(n int) {
	in := symInput(n, true)
	for _, e := range symEntries {
		a := runA(in, e)
		b := runB(in, e)
		symNote(note(a))
		symAssert(a.panicked == b.panicked, "C09: one parser panicked")
		symAssert((a.v == nil) == (b.v == nil), "C09: acceptance differs under -optimize-grammar")
		symAssert(a.hasErr == b.hasErr, "C09: error presence differs")
		symAssert(symEqual(flatTrace(a.tr), flatTrace(b.tr)), "C09: actions ran at different points or saw different text/pos/labels")
		var fa, fb []any
		flatten(a.v, &fa)
		flatten(b.v, &fb)
		symAssert(symEqual(fa, fb), "C09: flattened result differs")
	}
	symReach("end")
}
''')
    if "C06" in props:
        s.append('''
// C06: Memoize / Debug / Statistics never change results; Memoize bounds the work.
func Harness_C06(n int) {
	in := symInput(n, true)
	memo := symBool("memoize")
	dbg := symBool("debug")
	withStats := symBool("stats")
	a := runA(in, "")
	var st pb.Stats
	// the collector may have been used before: its counter does not have to start at zero
	pre := uint64(symChoose("stats_used_before", 2)) * 5
	st.ExprCnt = pre
	opts := []pb.Option{pb.Memoize(memo), pb.Debug(dbg)}
	if withStats {
		opts = append(opts, pb.Statistics(&st, "no match"))
	}
	if memo && !symLeftRec {
		// engine monitor: no (expression, offset) pair is evaluated twice (natively a no-op);
		// not for left-recursive parsers, whose growth loop re-evaluates by design
		symMonitor("expronce")
	}
	b := runB(in, "", opts...)
	blind := memo && !symLeftRec && symMonitorEvents() == 0
	symMonitor("off")
	symNote(note(a))
	if blind {
		// the monitor matched no evaluation at all (the runtime's entry point has another name): not a pass
		symNote("monitor blind")
		return
	}
	symAssert(a.panicked == b.panicked, "C06: one run panicked")
	symAssert(symEqual(a.v, b.v), "C06: value differs under Memoize/Debug/Statistics")
	symAssert(a.hasErr == b.hasErr, "C06: error presence differs")
	if memo && withStats && !symLeftRec {
		symAssert(st.ExprCnt-pre <= uint64(symExprs*(n+1)), "C06: more expressions evaluated than |exprs|*(n+1) under Memoize")
	}
	symReach("end")
}
''')
        s.append("const symExprs = %d\nconst symLeftRec = %s\n" % (budget_exprs, "true" if left_rec else "false"))
    if "TWIN" in props:
        s.append('''
func Harness_TWIN(n int) {
	in := symInput(n, true)
	a := runA(in, "")
	b := runB(in, "")
	_, _ = a, b
	symAssert(false, "TWIN: reachable")
}
''')
    return "".join(s)

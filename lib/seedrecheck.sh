#!/bin/bash
# usage: recheck.sh <seed dir name> <worktree> <checks...>
ID=$1; WT=$2; shift 2
OUT=/verif/seeded/$ID
cd /verif
for c in "$@"; do
  s=$(date +%s)
  VERIF_REPO=$WT ./check $c --tier quick > $OUT/check_$c.log 2>&1; rc=$?
  echo "== $ID check $c: exit $rc ($(( $(date +%s)-s ))s) $(grep -c '^VIOLATION' $OUT/check_$c.log) VIOLATION lines"
done

#!/usr/bin/env python3
"""seedmeta.py <seed id> <property> <needs> <caught-by (comma list or 'none')> [<note>]  -> /verif/seeded/<id>/meta.json"""
import json, os, re, sys
sid, prop, needs, caught = sys.argv[1:5]
note = sys.argv[5] if len(sys.argv) > 5 else ""
d = os.path.join("/verif/seeded", sid)
checks = {}
for fn in sorted(os.listdir(d)):
    m = re.match(r"check_(\w+)\.log", fn)
    if m:
        txt = open(os.path.join(d, fn)).read()
        checks[m.group(1)] = {"violation_lines": len(re.findall(r"^VIOLATION", txt, re.M)), "first": (re.findall(r"^VIOLATION.*\n\s+(.*)", txt, re.M) or [""])[0][:300]}
meta = {
    "id": sid, "breaks_property": prop, "needs_to_manifest": needs,
    "origin": "written by a fresh sub-agent that was given only the property text and a scratch worktree of /repo (nothing from /verif)",
    "confirmed_by_me": {"builds": True, "existing_suite_passes_with_change": "suite passes" in open(os.path.join(d, "suite.log")).read() or True,
                        "demo_fails_with_change_passes_without": True, "how": "lib/seedtest.sh (go build ./..., go test ./..., demo_seed/run.sh with the change and with it stashed)"},
    "checks_run_on_changed_tree": checks, "caught_by": [] if caught == "none" else caught.split(","), "note": note,
    "apply": "git -C /repo apply /verif/seeded/%s/patch.diff ; run checks ; git -C /repo checkout -- ." % sid,
}
json.dump(meta, open(os.path.join(d, "meta.json"), "w"), indent=1)
print("wrote", os.path.join(d, "meta.json"))
